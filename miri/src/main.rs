//! Engine E2 for C05: real rayon (real deques, real thread-locals, real ThreadRng and
//! RandomState) under Miri, whose `-Zmiri-seed` makes the thread scheduler, the OS
//! entropy and the hash keys a function of one integer.  No cfg(quizx_verif): this
//! is the shipped code.
//!
//! usage: qmiri <workload seed> <W> [big]
//! prints "E2 ok ..." and exits 0, or "E2 MISMATCH ..." and exits 3.

use num::Rational64;
use quizx::decompose::*;
use quizx::graph::*;
use quizx::scalar::*;
use quizx::vec_graph::Graph;

struct Rng(u64);
impl Rng {
    fn next(&mut self) -> u64 {
        self.0 = self.0.wrapping_add(0x9E37_79B9_7F4A_7C15);
        let mut z = self.0;
        z = (z ^ (z >> 30)).wrapping_mul(0xBF58_476D_1CE4_E5B9);
        z = (z ^ (z >> 27)).wrapping_mul(0x94D0_49BB_1331_11EB);
        z ^ (z >> 31)
    }
    fn below(&mut self, n: u64) -> u64 {
        self.next() % n
    }
}

/// Σ_x ω^{Σ k_v x_v} (−1)^{Σ_{uv} x_u x_v} · √2^{−#edges} · scalar, for a graph-like diagram
/// (Z spiders, Hadamard edges, phases k/4), through quizx's scalar type.
fn brute(g: &Graph) -> Scalar4 {
    let vs: Vec<V> = g.vertices().collect();
    let n = vs.len();
    let ks: Vec<i64> = vs
        .iter()
        .map(|&v| {
            let r = g.phase(v).to_rational();
            (r.numer() * (4 / r.denom())).rem_euclid(8)
        })
        .collect();
    let mut es = vec![];
    for (a, b, t) in g.edges() {
        assert!(t == EType::H);
        let ia = vs.iter().position(|&x| x == a).unwrap();
        let ib = vs.iter().position(|&x| x == b).unwrap();
        es.push((ia, ib));
    }
    let mut cnt = [0i64; 8];
    for x in 0..(1u32 << n) {
        let mut k = 0i64;
        for i in 0..n {
            if x >> i & 1 == 1 {
                k += ks[i];
            }
        }
        for &(a, b) in &es {
            if x >> a & 1 == 1 && x >> b & 1 == 1 {
                k += 4;
            }
        }
        cnt[(k.rem_euclid(8)) as usize] += 1;
    }
    let c = [cnt[0] - cnt[4], cnt[1] - cnt[5], cnt[2] - cnt[6], cnt[3] - cnt[7]];
    Scalar4::new(c, 0) * Scalar4::sqrt2_pow(-(es.len() as i32)) * *g.scalar()
}

fn run<D: Driver>(g: &Graph, d: &D, simp: SimpFunc, split: bool, w: usize) -> (Scalar4, Scalar4) {
    let mut s = Decomposer::new(g);
    s.with_simp(simp).with_split_graphs_components(split);
    let seq = s.decompose(d).scalar();
    let pool = rayon::ThreadPoolBuilder::new().num_threads(w).build().unwrap();
    let mut p = Decomposer::new(g);
    p.with_simp(simp).with_split_graphs_components(split);
    let par = pool.install(|| p.decompose_parallel(d).scalar());
    (seq, par)
}

fn main() {
    let a: Vec<String> = std::env::args().collect();
    let wseed: u64 = a.get(1).and_then(|s| s.parse().ok()).unwrap_or(1);
    let w: usize = a.get(2).and_then(|s| s.parse().ok()).unwrap_or(2);
    let mut r = Rng(wseed);
    // small diagram, 3..7 spiders, up to 5 T. Two shapes: one Erdős–Rényi blob, or (more often)
    // a disjoint union of tiny components with repetitions and possibly a zero-valued one (a
    // lone pi spider) — sharing, de-duplicating or short-circuiting work between components is
    // where a parallel decomposer is tempted to be clever.
    let mut g = Graph::new();
    let mut t = 0;
    let mut n = 0usize;
    // one workload in eight is larger (8..10 spiders, up to 9 T): size cutoffs inside the parallel
    // code ("below k T spiders stay on the current thread") hide everything smaller
    let big = a.get(3).map(|s| s == "big").unwrap_or(false);
    if big || r.below(3) == 0 {
        n = if big { 8 + r.below(3) as usize } else { 3 + r.below(4) as usize };
        let tcap = if big { 9 } else { 5 };
        for _ in 0..n {
            let k = if t < tcap && (big || r.below(3) != 0) {
                t += 1;
                [1, 3, 5, 7][r.below(4) as usize]
            } else {
                [0, 2, 4, 6][r.below(4) as usize]
            };
            g.add_vertex_with_phase(VType::Z, Rational64::new(k, 4));
        }
        for i in 0..n {
            for j in (i + 1)..n {
                if r.below(100) < 45 {
                    g.add_edge_with_type(i, j, EType::H);
                }
            }
        }
    } else {
        let kinds = 1 + r.below(2);
        for _ in 0..kinds {
            // a component: a path of 1..3 spiders with chosen phases
            let len = 1 + r.below(3) as usize;
            let phases: Vec<i64> = (0..len)
                .map(|_| if r.below(3) != 0 { [1, 3, 5, 7][r.below(4) as usize] } else { [0, 2, 4, 6][r.below(4) as usize] })
                .collect();
            let copies = 1 + r.below(2) as usize;
            for _ in 0..copies {
                let tc = phases.iter().filter(|p| *p % 2 == 1).count();
                if n + len > 7 || t + tc > 5 {
                    break;
                }
                let base = n;
                for &p in &phases {
                    g.add_vertex_with_phase(VType::Z, Rational64::new(p, 4));
                }
                for i in 1..len {
                    g.add_edge_with_type(base + i - 1, base + i, EType::H);
                }
                n += len;
                t += tc;
            }
        }
        if r.below(3) == 0 && n < 7 {
            // a zero-valued component
            g.add_vertex_with_phase(VType::Z, Rational64::new(4, 4));
            n += 1;
        }
        if n == 0 {
            g.add_vertex_with_phase(VType::Z, Rational64::new(1, 4));
            n = 1;
            t = 1;
        }
    }
    let simp = if r.below(3) != 0 { SimpFunc::NoSimp } else { SimpFunc::FullSimp };
    let split = r.below(4) != 0;
    let drv = [0u64, 1, 2, 3, 3, 4][r.below(6) as usize];
    let want = brute(&g);
    let (seq, par) = match drv {
        0 => run(&g, &BssTOnlyDriver { random_t: true }, simp, split, w),
        1 => run(&g, &BssWithCatsDriver { random_t: false }, simp, split, w),
        2 => run(&g, &DynamicTDriver, simp, split, w),
        3 => run(&g, &SpiderCuttingDriver, simp, split, w),
        _ => run(&g, &BssWithCatsDriver { random_t: true }, simp, split, w),
    };
    let desc = format!("wseed={wseed} W={w} n={n} T={t} driver={drv} simp={:?} split={split}", simp);
    if seq != want {
        println!("E2 MISMATCH sequential {desc}: got {seq} want {want}");
        std::process::exit(3);
    }
    if par != seq {
        println!("E2 MISMATCH parallel {desc}: sequential {seq} parallel {par}");
        std::process::exit(3);
    }
    println!("E2 ok {desc} value={seq}");
}
