/*
 * qfault: a system-call seam for child processes (LD_PRELOAD).
 *
 * The simulator decides, per run, what the n-th open / read / write on a
 * *tracked* descriptor does: proceed, transfer fewer bytes than asked for
 * (short read / short write), fail once with EINTR, or fail with a chosen
 * errno (EIO, ENOSPC, EDQUOT, EMFILE, EACCES ...).  Tracked descriptors are
 * those opened on a path below $QFAULT_DIR and, if $QFAULT_STDOUT=1, fd 1.
 * Everything else (the loader, /proc, /dev/urandom, stderr ...) is untouched.
 *
 *   QFAULT_PLAN = "R:<tok>,<tok>,..;W:<tok>,..;O:<tok>,.."
 *       tok: k        proceed
 *            s<N>     transfer at most N bytes (N >= 1)
 *            i        fail with EINTR, nothing transferred
 *            e<N>     fail with errno N, nothing transferred
 *       streams are consumed one token per tracked call of that kind; an
 *       exhausted stream means "proceed".
 *   QFAULT_LOG  = file that receives one line per tracked call:
 *                 "<R|W|O> <tok> <asked> <result>"
 *
 * The shim is deterministic: it has no randomness and no clock; the schedule
 * of faults is a pure function of the plan and of the program's own sequence
 * of system calls.
 */
#define _GNU_SOURCE
#include <dlfcn.h>
#include <errno.h>
#include <fcntl.h>
#include <stdarg.h>
#include <stdio.h>
#include <stdlib.h>
#include <string.h>
#include <sys/syscall.h>
#include <sys/types.h>
#include <sys/uio.h>
#include <unistd.h>

#define MAXFD 4096
#define MAXTOK 256

typedef struct {
    char kind; /* 'k','s','i','e' */
    long arg;
} tok_t;

static tok_t plan_r[MAXTOK], plan_w[MAXTOK], plan_o[MAXTOK];
static int n_r, n_w, n_o;
static int pos_r, pos_w, pos_o; /* atomics via __sync */
static char tracked[MAXFD];
static char dir[4096];
static size_t dirlen;
static int track_stdout;
static int log_fd = -1;
static int ready;

static ssize_t raw_write(int fd, const void *b, size_t n) { return syscall(SYS_write, fd, b, n); }

static void parse_stream(const char *s, const char *end, tok_t *out, int *n) {
    *n = 0;
    while (s < end && *n < MAXTOK) {
        tok_t t;
        t.kind = *s;
        t.arg = 0;
        s++;
        while (s < end && *s >= '0' && *s <= '9') {
            t.arg = t.arg * 10 + (*s - '0');
            s++;
        }
        if (t.kind == 'k' || t.kind == 's' || t.kind == 'i' || t.kind == 'e') out[(*n)++] = t;
        while (s < end && *s != ',') s++;
        if (s < end) s++;
    }
}

__attribute__((constructor)) static void qfault_init(void) {
    const char *p = getenv("QFAULT_PLAN");
    const char *d = getenv("QFAULT_DIR");
    const char *so = getenv("QFAULT_STDOUT");
    const char *lg = getenv("QFAULT_LOG");
    if (d && *d) {
        strncpy(dir, d, sizeof(dir) - 1);
        dirlen = strlen(dir);
    }
    track_stdout = so && so[0] == '1';
    if (track_stdout) tracked[1] = 1;
    if (p) {
        const char *s = p;
        while (*s) {
            const char *e = strchr(s, ';');
            if (!e) e = s + strlen(s);
            if (e - s >= 2 && s[1] == ':') {
                if (s[0] == 'R') parse_stream(s + 2, e, plan_r, &n_r);
                if (s[0] == 'W') parse_stream(s + 2, e, plan_w, &n_w);
                if (s[0] == 'O') parse_stream(s + 2, e, plan_o, &n_o);
            }
            s = *e ? e + 1 : e;
        }
    }
    if (lg && *lg) log_fd = (int)syscall(SYS_openat, AT_FDCWD, lg, O_WRONLY | O_CREAT | O_APPEND | O_CLOEXEC, 0644);
    ready = 1;
}

static tok_t next_tok(tok_t *plan, int n, int *pos) {
    int i = __sync_fetch_and_add(pos, 1);
    tok_t k = {'k', 0};
    if (i < n) return plan[i];
    return k;
}

static void logline(char op, tok_t t, long asked, long result) {
    if (log_fd < 0) return;
    char buf[96];
    int n = snprintf(buf, sizeof buf, "%c %c%ld %ld %ld\n", op, t.kind, t.arg, asked, result);
    if (n > 0) raw_write(log_fd, buf, (size_t)n);
}

static int is_tracked_path(const char *path) {
    return ready && dirlen > 0 && path && strncmp(path, dir, dirlen) == 0;
}

static int do_open(int dfd, const char *path, int flags, mode_t mode) {
    if (is_tracked_path(path)) {
        tok_t t = next_tok(plan_o, n_o, &pos_o);
        if (t.kind == 'i' || t.kind == 'e') {
            int en = t.kind == 'i' ? EINTR : (int)t.arg;
            logline('O', t, 0, -en);
            errno = en;
            return -1;
        }
        int fd = (int)syscall(SYS_openat, dfd, path, flags, mode);
        if (fd >= 0 && fd < MAXFD) tracked[fd] = 1;
        logline('O', t, 0, fd);
        return fd;
    }
    int fd = (int)syscall(SYS_openat, dfd, path, flags, mode);
    if (fd >= 0 && fd < MAXFD) tracked[fd] = 0;
    return fd;
}

#define OPEN_BODY(dfd)                          \
    mode_t mode = 0;                            \
    if (flags & (O_CREAT | O_TMPFILE)) {        \
        va_list ap;                             \
        va_start(ap, flags);                    \
        mode = (mode_t)va_arg(ap, int);         \
        va_end(ap);                             \
    }                                           \
    return do_open(dfd, path, flags, mode);

int open(const char *path, int flags, ...) { OPEN_BODY(AT_FDCWD) }
int open64(const char *path, int flags, ...) { OPEN_BODY(AT_FDCWD) }
int openat(int dfd, const char *path, int flags, ...) { OPEN_BODY(dfd) }
int openat64(int dfd, const char *path, int flags, ...) { OPEN_BODY(dfd) }
int creat(const char *path, mode_t mode) { return do_open(AT_FDCWD, path, O_CREAT | O_WRONLY | O_TRUNC, mode); }
int creat64(const char *path, mode_t mode) { return do_open(AT_FDCWD, path, O_CREAT | O_WRONLY | O_TRUNC, mode); }

int close(int fd) {
    if (fd >= 0 && fd < MAXFD && !(fd == 1 && track_stdout)) tracked[fd] = 0;
    return (int)syscall(SYS_close, fd);
}

static int fd_tracked(int fd) { return ready && fd >= 0 && fd < MAXFD && tracked[fd]; }

ssize_t read(int fd, void *buf, size_t count) {
    if (fd_tracked(fd) && count > 0) {
        tok_t t = next_tok(plan_r, n_r, &pos_r);
        if (t.kind == 'i' || t.kind == 'e') {
            int en = t.kind == 'i' ? EINTR : (int)t.arg;
            logline('R', t, (long)count, -en);
            errno = en;
            return -1;
        }
        size_t c = count;
        if (t.kind == 's' && t.arg >= 1 && (size_t)t.arg < c) c = (size_t)t.arg;
        ssize_t r = syscall(SYS_read, fd, buf, c);
        logline('R', t, (long)count, (long)r);
        return r;
    }
    return syscall(SYS_read, fd, buf, count);
}

ssize_t write(int fd, const void *buf, size_t count) {
    if (fd_tracked(fd) && count > 0) {
        tok_t t = next_tok(plan_w, n_w, &pos_w);
        if (t.kind == 'i' || t.kind == 'e') {
            int en = t.kind == 'i' ? EINTR : (int)t.arg;
            logline('W', t, (long)count, -en);
            errno = en;
            return -1;
        }
        size_t c = count;
        if (t.kind == 's' && t.arg >= 1 && (size_t)t.arg < c) c = (size_t)t.arg;
        ssize_t r = syscall(SYS_write, fd, buf, c);
        logline('W', t, (long)count, (long)r);
        return r;
    }
    return syscall(SYS_write, fd, buf, count);
}

ssize_t readv(int fd, const struct iovec *iov, int iovcnt) {
    if (fd_tracked(fd) && iovcnt > 0) {
        /* treated as one read into the first non-empty buffer */
        for (int i = 0; i < iovcnt; i++)
            if (iov[i].iov_len > 0) return read(fd, iov[i].iov_base, iov[i].iov_len);
        return 0;
    }
    return syscall(SYS_readv, fd, iov, iovcnt);
}

ssize_t writev(int fd, const struct iovec *iov, int iovcnt) {
    if (fd_tracked(fd) && iovcnt > 0) {
        /* treated as one write of the first non-empty buffer (a legal short write) */
        for (int i = 0; i < iovcnt; i++)
            if (iov[i].iov_len > 0) return write(fd, iov[i].iov_base, iov[i].iov_len);
        return 0;
    }
    return syscall(SYS_writev, fd, iov, iovcnt);
}

ssize_t pread(int fd, void *buf, size_t count, off_t off) {
    if (fd_tracked(fd) && count > 0) {
        tok_t t = next_tok(plan_r, n_r, &pos_r);
        if (t.kind == 'i' || t.kind == 'e') {
            int en = t.kind == 'i' ? EINTR : (int)t.arg;
            logline('R', t, (long)count, -en);
            errno = en;
            return -1;
        }
        size_t c = count;
        if (t.kind == 's' && t.arg >= 1 && (size_t)t.arg < c) c = (size_t)t.arg;
        ssize_t r = syscall(SYS_pread64, fd, buf, c, off);
        logline('R', t, (long)count, (long)r);
        return r;
    }
    return syscall(SYS_pread64, fd, buf, count, off);
}
ssize_t pread64(int fd, void *buf, size_t count, off_t off) { return pread(fd, buf, count, off); }

ssize_t pwrite(int fd, const void *buf, size_t count, off_t off) {
    if (fd_tracked(fd) && count > 0) {
        tok_t t = next_tok(plan_w, n_w, &pos_w);
        if (t.kind == 'i' || t.kind == 'e') {
            int en = t.kind == 'i' ? EINTR : (int)t.arg;
            logline('W', t, (long)count, -en);
            errno = en;
            return -1;
        }
        size_t c = count;
        if (t.kind == 's' && t.arg >= 1 && (size_t)t.arg < c) c = (size_t)t.arg;
        ssize_t r = syscall(SYS_pwrite64, fd, buf, c, off);
        logline('W', t, (long)count, (long)r);
        return r;
    }
    return syscall(SYS_pwrite64, fd, buf, count, off);
}
ssize_t pwrite64(int fd, const void *buf, size_t count, off_t off) { return pwrite(fd, buf, count, off); }
