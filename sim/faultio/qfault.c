/*
 * qfault: a system-call seam for child processes (LD_PRELOAD).
 *
 * The simulator decides, per run, what the n-th open / read / write on a
 * *tracked* descriptor does: proceed, transfer fewer bytes than asked for
 * (short read / short write), fail once with EINTR, or fail with a chosen
 * errno (EIO, ENOSPC, EDQUOT, EMFILE, EACCES ...).  Tracked descriptors are
 * those opened on a path below $QFAULT_DIR and, if $QFAULT_STDOUT=1, fd 1.
 * Everything else (the loader, /proc, /dev/urandom, stderr ...) is untouched.
 *
 *   QFAULT_PLAN = "R:<tok>,<tok>,..;W:<tok>,..;O:<tok>,.."
 *       tok: k        proceed
 *            s<N>     transfer at most N bytes (N >= 1)
 *            i        fail with EINTR, nothing transferred
 *            e<N>     fail with errno N, nothing transferred
 *       streams are consumed one token per tracked call of that kind; an
 *       exhausted stream means "proceed".
 *   QFAULT_LOG  = file that receives one line per tracked call:
 *                 "<R|W|O> <tok> <asked> <result>"
 *
 *   QFAULT_SCHED = "n=<threads>;s=<i>,<i>,.."   (optional) thread scheduler:
 *       the program registers n worker threads (qfault_thread_begin(i) /
 *       qfault_thread_end(i), looked up with dlsym).  From then on exactly ONE
 *       registered thread runs at any time; a thread gives the processor up at
 *       every tracked call (open / read / write / close / rename / unlink on a
 *       tracked path or descriptor), and the next thread to run is the
 *       (s[k] mod #waiting)-th waiting one, k counting scheduling decisions
 *       (an exhausted list means "the lowest index").  So the interleaving of
 *       the workers - including everything they do in memory between two
 *       calls - is a function of the list.
 *
 * The shim is deterministic: it has no randomness and no clock; the schedule
 * of faults is a pure function of the plan and of the program's own sequence
 * of system calls.
 */
#define _GNU_SOURCE
#include <dlfcn.h>
#include <errno.h>
#include <fcntl.h>
#include <stdarg.h>
#include <stdio.h>
#include <stdlib.h>
#include <string.h>
#include <sys/syscall.h>
#include <sys/types.h>
#include <sys/uio.h>
#include <unistd.h>
#include <pthread.h>

#define MAXFD 4096
#define MAXTOK 256

typedef struct {
    char kind; /* 'k','s','i','e' */
    long arg;
} tok_t;

static tok_t plan_r[MAXTOK], plan_w[MAXTOK], plan_o[MAXTOK];
static int n_r, n_w, n_o;
static int pos_r, pos_w, pos_o; /* atomics via __sync */
static char tracked[MAXFD];
static char dir[4096];
static size_t dirlen;
static int track_stdout;
static int log_fd = -1;
static int ready;

static ssize_t raw_write(int fd, const void *b, size_t n) { return syscall(SYS_write, fd, b, n); }

/* ---- thread scheduler ------------------------------------------------------------------- */
#define MAXTHR 8
#define MAXPICK 4096
static int sched_n;                 /* 0: scheduler off */
static int picks[MAXPICK], n_picks, pick_pos;
static int tstate[MAXTHR];          /* 0 not yet registered, 1 running, 2 waiting, 3 finished */
static int registered;
static int turn = -1;
static pthread_mutex_t smu = PTHREAD_MUTEX_INITIALIZER;
static pthread_cond_t scv = PTHREAD_COND_INITIALIZER;
static __thread int my_idx = -1;

/* with smu held: if nobody runs and all registered threads have arrived, choose the next one */
static void sched_decide(void) {
    if (registered < sched_n) return;
    for (int i = 0; i < sched_n; i++)
        if (tstate[i] == 1) return;
    int waiting[MAXTHR], w = 0;
    for (int i = 0; i < sched_n; i++)
        if (tstate[i] == 2) waiting[w++] = i;
    if (w == 0) return;
    int k = 0;
    if (pick_pos < n_picks) k = picks[pick_pos] % w;
    pick_pos++;
    turn = waiting[k];
    tstate[turn] = 1;
    pthread_cond_broadcast(&scv);
}

/* give the processor up and wait to be chosen again */
static void sched_point(void) {
    if (!sched_n || my_idx < 0) return;
    pthread_mutex_lock(&smu);
    tstate[my_idx] = 2;
    if (turn == my_idx) turn = -1;
    sched_decide();
    while (turn != my_idx) pthread_cond_wait(&scv, &smu);
    pthread_mutex_unlock(&smu);
}

void qfault_thread_begin(int idx) {
    if (!sched_n || idx < 0 || idx >= sched_n) return;
    my_idx = idx;
    pthread_mutex_lock(&smu);
    tstate[idx] = 2;
    registered++;
    sched_decide();
    while (turn != my_idx) pthread_cond_wait(&scv, &smu);
    pthread_mutex_unlock(&smu);
}

void qfault_thread_end(int idx) {
    if (!sched_n || idx != my_idx) return;
    pthread_mutex_lock(&smu);
    tstate[idx] = 3;
    if (turn == idx) turn = -1;
    my_idx = -1;
    sched_decide();
    pthread_mutex_unlock(&smu);
}

static void parse_stream(const char *s, const char *end, tok_t *out, int *n) {
    *n = 0;
    while (s < end && *n < MAXTOK) {
        tok_t t;
        t.kind = *s;
        t.arg = 0;
        s++;
        while (s < end && *s >= '0' && *s <= '9') {
            t.arg = t.arg * 10 + (*s - '0');
            s++;
        }
        if (t.kind == 'k' || t.kind == 's' || t.kind == 'i' || t.kind == 'e') out[(*n)++] = t;
        while (s < end && *s != ',') s++;
        if (s < end) s++;
    }
}

__attribute__((constructor)) static void qfault_init(void) {
    const char *p = getenv("QFAULT_PLAN");
    const char *d = getenv("QFAULT_DIR");
    const char *so = getenv("QFAULT_STDOUT");
    const char *lg = getenv("QFAULT_LOG");
    if (d && *d) {
        strncpy(dir, d, sizeof(dir) - 1);
        dirlen = strlen(dir);
    }
    track_stdout = so && so[0] == '1';
    if (track_stdout) tracked[1] = 1;
    if (p) {
        const char *s = p;
        while (*s) {
            const char *e = strchr(s, ';');
            if (!e) e = s + strlen(s);
            if (e - s >= 2 && s[1] == ':') {
                if (s[0] == 'R') parse_stream(s + 2, e, plan_r, &n_r);
                if (s[0] == 'W') parse_stream(s + 2, e, plan_w, &n_w);
                if (s[0] == 'O') parse_stream(s + 2, e, plan_o, &n_o);
            }
            s = *e ? e + 1 : e;
        }
    }
    const char *sc = getenv("QFAULT_SCHED");
    if (sc && sc[0] == 'n' && sc[1] == '=') {
        sched_n = atoi(sc + 2);
        if (sched_n < 0 || sched_n > MAXTHR) sched_n = 0;
        const char *q = strstr(sc, "s=");
        if (q) {
            q += 2;
            while (*q && n_picks < MAXPICK) {
                picks[n_picks++] = atoi(q);
                while (*q && *q != ',') q++;
                if (*q) q++;
            }
        }
    }
    if (lg && *lg) log_fd = (int)syscall(SYS_openat, AT_FDCWD, lg, O_WRONLY | O_CREAT | O_APPEND | O_CLOEXEC, 0644);
    ready = 1;
}

static tok_t next_tok(tok_t *plan, int n, int *pos) {
    int i = __sync_fetch_and_add(pos, 1);
    tok_t k = {'k', 0};
    if (i < n) return plan[i];
    return k;
}

static void logline(char op, tok_t t, long asked, long result) {
    if (log_fd < 0) return;
    char buf[96];
    int n = my_idx >= 0 ? snprintf(buf, sizeof buf, "%c %c%ld %ld %ld T%d\n", op, t.kind, t.arg, asked, result, my_idx)
                        : snprintf(buf, sizeof buf, "%c %c%ld %ld %ld\n", op, t.kind, t.arg, asked, result);
    if (n > 0) raw_write(log_fd, buf, (size_t)n);
}

static int is_tracked_path(const char *path) {
    return ready && dirlen > 0 && path && strncmp(path, dir, dirlen) == 0;
}

static int do_open(int dfd, const char *path, int flags, mode_t mode) {
    if (is_tracked_path(path)) {
        sched_point();
        tok_t t = next_tok(plan_o, n_o, &pos_o);
        if (t.kind == 'i' || t.kind == 'e') {
            int en = t.kind == 'i' ? EINTR : (int)t.arg;
            logline('O', t, 0, -en);
            errno = en;
            return -1;
        }
        int fd = (int)syscall(SYS_openat, dfd, path, flags, mode);
        if (fd >= 0 && fd < MAXFD) tracked[fd] = 1;
        logline('O', t, 0, fd);
        return fd;
    }
    int fd = (int)syscall(SYS_openat, dfd, path, flags, mode);
    if (fd >= 0 && fd < MAXFD) tracked[fd] = 0;
    return fd;
}

#define OPEN_BODY(dfd)                          \
    mode_t mode = 0;                            \
    if (flags & (O_CREAT | O_TMPFILE)) {        \
        va_list ap;                             \
        va_start(ap, flags);                    \
        mode = (mode_t)va_arg(ap, int);         \
        va_end(ap);                             \
    }                                           \
    return do_open(dfd, path, flags, mode);

int open(const char *path, int flags, ...) { OPEN_BODY(AT_FDCWD) }
int open64(const char *path, int flags, ...) { OPEN_BODY(AT_FDCWD) }
int openat(int dfd, const char *path, int flags, ...) { OPEN_BODY(dfd) }
int openat64(int dfd, const char *path, int flags, ...) { OPEN_BODY(dfd) }
int creat(const char *path, mode_t mode) { return do_open(AT_FDCWD, path, O_CREAT | O_WRONLY | O_TRUNC, mode); }
int creat64(const char *path, mode_t mode) { return do_open(AT_FDCWD, path, O_CREAT | O_WRONLY | O_TRUNC, mode); }

int close(int fd) {
    if (fd >= 0 && fd < MAXFD && tracked[fd]) sched_point();
    if (fd >= 0 && fd < MAXFD && !(fd == 1 && track_stdout)) tracked[fd] = 0;
    return (int)syscall(SYS_close, fd);
}

static int fd_tracked(int fd) { return ready && fd >= 0 && fd < MAXFD && tracked[fd]; }

ssize_t read(int fd, void *buf, size_t count) {
    if (fd_tracked(fd) && count > 0) {
        sched_point();
        tok_t t = next_tok(plan_r, n_r, &pos_r);
        if (t.kind == 'i' || t.kind == 'e') {
            int en = t.kind == 'i' ? EINTR : (int)t.arg;
            logline('R', t, (long)count, -en);
            errno = en;
            return -1;
        }
        size_t c = count;
        if (t.kind == 's' && t.arg >= 1 && (size_t)t.arg < c) c = (size_t)t.arg;
        ssize_t r = syscall(SYS_read, fd, buf, c);
        logline('R', t, (long)count, (long)r);
        return r;
    }
    return syscall(SYS_read, fd, buf, count);
}

ssize_t write(int fd, const void *buf, size_t count) {
    if (fd_tracked(fd) && count > 0) {
        sched_point();
        tok_t t = next_tok(plan_w, n_w, &pos_w);
        if (t.kind == 'i' || t.kind == 'e') {
            int en = t.kind == 'i' ? EINTR : (int)t.arg;
            logline('W', t, (long)count, -en);
            errno = en;
            return -1;
        }
        size_t c = count;
        if (t.kind == 's' && t.arg >= 1 && (size_t)t.arg < c) c = (size_t)t.arg;
        ssize_t r = syscall(SYS_write, fd, buf, c);
        logline('W', t, (long)count, (long)r);
        return r;
    }
    return syscall(SYS_write, fd, buf, count);
}

ssize_t readv(int fd, const struct iovec *iov, int iovcnt) {
    if (fd_tracked(fd) && iovcnt > 0) {
        /* treated as one read into the first non-empty buffer */
        for (int i = 0; i < iovcnt; i++)
            if (iov[i].iov_len > 0) return read(fd, iov[i].iov_base, iov[i].iov_len);
        return 0;
    }
    return syscall(SYS_readv, fd, iov, iovcnt);
}

ssize_t writev(int fd, const struct iovec *iov, int iovcnt) {
    if (fd_tracked(fd) && iovcnt > 0) {
        /* treated as one write of the first non-empty buffer (a legal short write) */
        for (int i = 0; i < iovcnt; i++)
            if (iov[i].iov_len > 0) return write(fd, iov[i].iov_base, iov[i].iov_len);
        return 0;
    }
    return syscall(SYS_writev, fd, iov, iovcnt);
}

ssize_t pread(int fd, void *buf, size_t count, off_t off) {
    if (fd_tracked(fd) && count > 0) {
        tok_t t = next_tok(plan_r, n_r, &pos_r);
        if (t.kind == 'i' || t.kind == 'e') {
            int en = t.kind == 'i' ? EINTR : (int)t.arg;
            logline('R', t, (long)count, -en);
            errno = en;
            return -1;
        }
        size_t c = count;
        if (t.kind == 's' && t.arg >= 1 && (size_t)t.arg < c) c = (size_t)t.arg;
        ssize_t r = syscall(SYS_pread64, fd, buf, c, off);
        logline('R', t, (long)count, (long)r);
        return r;
    }
    return syscall(SYS_pread64, fd, buf, count, off);
}
ssize_t pread64(int fd, void *buf, size_t count, off_t off) { return pread(fd, buf, count, off); }

ssize_t pwrite(int fd, const void *buf, size_t count, off_t off) {
    if (fd_tracked(fd) && count > 0) {
        tok_t t = next_tok(plan_w, n_w, &pos_w);
        if (t.kind == 'i' || t.kind == 'e') {
            int en = t.kind == 'i' ? EINTR : (int)t.arg;
            logline('W', t, (long)count, -en);
            errno = en;
            return -1;
        }
        size_t c = count;
        if (t.kind == 's' && t.arg >= 1 && (size_t)t.arg < c) c = (size_t)t.arg;
        ssize_t r = syscall(SYS_pwrite64, fd, buf, c, off);
        logline('W', t, (long)count, (long)r);
        return r;
    }
    return syscall(SYS_pwrite64, fd, buf, count, off);
}
ssize_t pwrite64(int fd, const void *buf, size_t count, off_t off) { return pwrite(fd, buf, count, off); }

/* path operations on tracked paths: scheduling points (and logged), never faulted */
int rename(const char *a, const char *b) {
    if (is_tracked_path(a) || is_tracked_path(b)) {
        sched_point();
        int r = (int)syscall(SYS_renameat2, AT_FDCWD, a, AT_FDCWD, b, 0);
        tok_t k = {'k', 0};
        logline('N', k, 0, r);
        return r;
    }
    return (int)syscall(SYS_renameat2, AT_FDCWD, a, AT_FDCWD, b, 0);
}
int renameat(int da, const char *a, int db, const char *b) {
    if (is_tracked_path(a) || is_tracked_path(b)) sched_point();
    return (int)syscall(SYS_renameat2, da, a, db, b, 0);
}
int renameat2(int da, const char *a, int db, const char *b, unsigned int fl) {
    if (is_tracked_path(a) || is_tracked_path(b)) sched_point();
    return (int)syscall(SYS_renameat2, da, a, db, b, fl);
}
int unlink(const char *a) {
    if (is_tracked_path(a)) {
        sched_point();
        int r = (int)syscall(SYS_unlinkat, AT_FDCWD, a, 0);
        tok_t k = {'k', 0};
        logline('U', k, 0, r);
        return r;
    }
    return (int)syscall(SYS_unlinkat, AT_FDCWD, a, 0);
}
int unlinkat(int d, const char *a, int fl) {
    if (is_tracked_path(a)) sched_point();
    return (int)syscall(SYS_unlinkat, d, a, fl);
}
