//! Driving the `quizx` command line: in-process (seams installed) and as a
//! child process (exit status, stdout, rlimits), plus the I/O fault layer.

use crate::decider::Decider;
use crate::simcore::{with_sim, Caught, Core};
use clap::Parser;
use serde::{Deserialize, Serialize};
use std::os::unix::process::CommandExt;
use std::path::{Path, PathBuf};
use std::process::{Command, Stdio};

#[derive(Clone, Debug, Serialize, Deserialize, PartialEq)]
pub enum InFault {
    None,
    Missing,
    IsDir,
    Empty,
    /// keep only the header and the first k gate statements (a torn input that is still a valid program)
    TruncatedAtStatement(usize),
    /// cut k bytes into the text (a torn input in the middle of a token)
    TruncatedMid(usize),
}

#[derive(Clone, Debug, Serialize, Deserialize, PartialEq)]
pub enum OutFault {
    None,
    /// -o /dev/full
    Enospc,
    /// RLIMIT_FSIZE = k bytes in the child
    Efbig(u64),
    NoDir,
    IsDir,
    /// result goes to stdout, which is /dev/full
    StdoutEnospc,
    /// stdout is a pipe whose reader is closed
    StdoutEpipe,
    /// fd 1 is closed
    StdoutClosed,
}

impl InFault {
    pub fn name(&self) -> &'static str {
        match self {
            InFault::None => "in_none",
            InFault::Missing => "in_missing",
            InFault::IsDir => "in_is_dir",
            InFault::Empty => "in_empty",
            InFault::TruncatedAtStatement(_) => "in_truncated_at_statement",
            InFault::TruncatedMid(_) => "in_truncated_mid_token",
        }
    }
}
impl OutFault {
    pub fn name(&self) -> &'static str {
        match self {
            OutFault::None => "out_none",
            OutFault::Enospc => "out_enospc",
            OutFault::Efbig(_) => "out_efbig",
            OutFault::NoDir => "out_nodir",
            OutFault::IsDir => "out_is_dir",
            OutFault::StdoutEnospc => "stdout_enospc",
            OutFault::StdoutEpipe => "stdout_epipe",
            OutFault::StdoutClosed => "stdout_closed",
        }
    }
    pub fn uses_stdout(&self) -> bool {
        matches!(self, OutFault::StdoutEnospc | OutFault::StdoutEpipe | OutFault::StdoutClosed)
    }
}

/// Serialises fork/exec across harness threads: a child forked by another
/// thread briefly inherits every open descriptor (until its exec closes the
/// CLOEXEC ones), which would keep e.g. the read end of a "broken" pipe alive.
pub static SPAWN_LOCK: std::sync::Mutex<()> = std::sync::Mutex::new(());

/// What a CLI invocation did.
#[derive(Clone, Debug, PartialEq)]
pub enum CliResult {
    /// success, with the produced text (from the -o file or stdout) if it could be read
    Ok(Option<String>),
    /// clean failure: Err from run(), clap rejection, or exit status 1 / 2
    Err(String),
    /// panic (in-process) or exit status 101 / signal (child)
    Panic(String),
    Budget,
}

pub struct Scratch {
    pub dir: PathBuf,
}

static SCRATCH_SEQ: std::sync::atomic::AtomicU64 = std::sync::atomic::AtomicU64::new(0);

impl Scratch {
    /// A fresh directory; the name is unique per process (a counter), so that runs
    /// with identical scenarios never share one. Names never reach a result.
    pub fn new(root: &Path, tag: &str) -> Scratch {
        let k = SCRATCH_SEQ.fetch_add(1, std::sync::atomic::Ordering::Relaxed);
        let dir = root.join(format!("{tag}-{k}"));
        let _ = std::fs::create_dir_all(&dir);
        Scratch { dir }
    }
    pub fn path(&self, name: &str) -> PathBuf {
        self.dir.join(name)
    }
}

impl Drop for Scratch {
    fn drop(&mut self) {
        let _ = std::fs::remove_dir_all(&self.dir);
    }
}

/// Write the input file according to the fault; returns the path to pass.
/// Where `prepare_input` puts the program: the file name varies with the content (blanks,
/// non-ASCII letters, several dots) - a path is data too, and the tools must take it as it comes.
pub fn input_path(s: &Scratch, header: &str, statements: &[String]) -> PathBuf {
    let names = ["in.qasm", "in.qasm", "in put.qasm", "ünï cödé.qasm", "in.v2.final.qasm", "IN.QASM"];
    let h = crate::decider::hash_str(header) ^ statements.len() as u64;
    s.path(names[(h % names.len() as u64) as usize])
}

pub fn prepare_input(s: &Scratch, header: &str, statements: &[String], fault: &InFault) -> PathBuf {
    let p = input_path(s, header, statements);
    match fault {
        InFault::None => {
            let mut t = header.to_string();
            for st in statements {
                t += st;
            }
            std::fs::write(&p, t).expect("scratch write");
            p
        }
        InFault::Missing => s.path("does-not-exist.qasm"),
        InFault::IsDir => {
            let d = s.path("in-dir.qasm");
            let _ = std::fs::create_dir_all(&d);
            d
        }
        InFault::Empty => {
            std::fs::write(&p, "").expect("scratch write");
            p
        }
        InFault::TruncatedAtStatement(k) => {
            let mut t = header.to_string();
            for st in statements.iter().take(*k) {
                t += st;
            }
            std::fs::write(&p, t).expect("scratch write");
            p
        }
        InFault::TruncatedMid(k) => {
            let mut t = header.to_string();
            for st in statements {
                t += st;
            }
            let k = (*k).min(t.len());
            // cut on a char boundary (the text is ASCII)
            std::fs::write(&p, &t.as_bytes()[..k]).expect("scratch write");
            p
        }
    }
}

/// In-process: parse argv with clap and run, with the simulator installed.
pub fn run_in_process(argv: &[String], dec: Decider, workers: usize) -> (CliResult, Core) {
    run_in_process_pool(argv, dec, workers, 0)
}

/// Same; `pool > 0` runs fork-join regions on the simulated worker pool of that size.
pub fn run_in_process_pool(argv: &[String], dec: Decider, workers: usize, pool: usize) -> (CliResult, Core) {
    let mut core = Core::new(dec, if pool > 0 { pool } else { workers });
    core.pool_workers = pool;
    core.step_budget = 2_000_000;
    core.draw_budget = 50_000_000;
    let args: Vec<String> = argv.to_vec();
    let (res, core) = with_sim(core, move || match quizx::cli::Cli::try_parse_from(&args) {
        Ok(cli) => cli.run().map_err(|e| format!("{e}")),
        Err(e) => Err(format!("clap: {:?}", e.kind())),
    });
    let r = match res {
        Caught::Ok(Ok(())) => CliResult::Ok(None),
        Caught::Ok(Err(e)) => CliResult::Err(e),
        Caught::Panic(m) => CliResult::Panic(m),
        Caught::Budget => CliResult::Budget,
    };
    (r, core)
}

/// Child process: the real binary, with output faults applied.
pub fn run_child(bin: &Path, argv_tail: &[String], s: &Scratch, out: &OutFault) -> (CliResult, Option<PathBuf>) {
    let mut args: Vec<String> = argv_tail.to_vec();
    let mut out_path: Option<PathBuf> = None;
    let mut enospc_link: Option<PathBuf> = None;
    match out {
        OutFault::None | OutFault::Efbig(_) => {
            let p = s.path("out.txt");
            args.push("-o".into());
            args.push(p.to_string_lossy().to_string());
            out_path = Some(p);
        }
        OutFault::Enospc => {
            // never hand the device node itself to the code under test: a tool that writes through
            // a temporary file and renames it over its target would replace /dev/full (the checks
            // run as root). A symbolic link in the scratch directory is followed by open(2) and
            // merely replaced by rename(2) / unlink(2).
            let p = enospc_target(s, "enospc-out.txt");
            args.push("-o".into());
            args.push(p.to_string_lossy().to_string());
            enospc_link = Some(p);
        }
        OutFault::NoDir => {
            args.push("-o".into());
            args.push(s.path("missing-dir").join("out.txt").to_string_lossy().to_string());
        }
        OutFault::IsDir => {
            let d = s.path("out-dir");
            let _ = std::fs::create_dir_all(&d);
            args.push("-o".into());
            args.push(d.to_string_lossy().to_string());
        }
        _ => {}
    }
    let mut cmd = Command::new(bin);
    cmd.args(&args).stdin(Stdio::null()).stderr(Stdio::piped());
    match out {
        OutFault::StdoutEnospc => {
            let f = std::fs::OpenOptions::new().write(true).open("/dev/full").expect("/dev/full");
            cmd.stdout(Stdio::from(f));
        }
        OutFault::StdoutEpipe => {
            // a pipe whose read end is closed before the child exists
            use std::os::unix::io::FromRawFd;
            let mut fds = [0i32; 2];
            let _g = SPAWN_LOCK.lock().unwrap_or_else(|e| e.into_inner());
            unsafe {
                if libc::pipe2(fds.as_mut_ptr(), libc::O_CLOEXEC) != 0 {
                    return (CliResult::Err("pipe2 failed".into()), None);
                }
                libc::close(fds[0]);
                cmd.stdout(Stdio::from(std::fs::File::from_raw_fd(fds[1])));
            }
        }
        OutFault::StdoutClosed => {
            cmd.stdout(Stdio::null());
            unsafe {
                cmd.pre_exec(|| {
                    libc::close(1);
                    Ok(())
                });
            }
        }
        _ => {
            cmd.stdout(Stdio::piped());
        }
    }
    if let OutFault::Efbig(k) = out {
        let k = *k;
        unsafe {
            cmd.pre_exec(move || {
                libc::signal(libc::SIGXFSZ, libc::SIG_IGN);
                let rl = libc::rlimit { rlim_cur: k, rlim_max: k };
                libc::setrlimit(libc::RLIMIT_FSIZE, &rl);
                Ok(())
            });
        }
    }
    let child = {
        let _g = SPAWN_LOCK.lock().unwrap_or_else(|e| e.into_inner());
        match cmd.spawn() {
            Ok(c) => c,
            Err(e) => return (CliResult::Err(format!("spawn: {e}")), None),
        }
    };
    drop(cmd);
    let o = match child.wait_with_output() {
        Ok(o) => o,
        Err(e) => return (CliResult::Err(format!("wait: {e}")), None),
    };
    let stderr = String::from_utf8_lossy(&o.stderr).to_string();
    let code = o.status.code();
    let res = match code {
        Some(0) => {
            let text = if let Some(p) = &out_path {
                std::fs::read_to_string(p).ok()
            } else if let Some(p) = enospc_link.as_ref().filter(|p| !still_link_to_full(p)) {
                // the tool replaced the link by a file of its own (e.g. temp file + rename): the
                // result did reach the requested path, and is judged like any other
                out_path = Some(p.clone());
                std::fs::read_to_string(p).ok()
            } else if !out.uses_stdout() && !matches!(out, OutFault::Enospc | OutFault::NoDir | OutFault::IsDir) {
                Some(String::from_utf8_lossy(&o.stdout).to_string())
            } else {
                None
            };
            CliResult::Ok(text)
        }
        Some(101) => CliResult::Panic(first_line(&stderr)),
        Some(c) => CliResult::Err(format!("exit {c}: {}", first_line(&stderr))),
        None => CliResult::Panic(format!("killed by signal: {}", first_line(&stderr))),
    };
    (res, out_path)
}

/// What is at the output path before the tool runs: 0 nothing, 1 a longer file of garbage, 2 a
/// longer file that is itself a valid artefact of the same kind (`valid`, repeated). A tool that
/// opens its target without truncating leaves a stale tail behind.
pub fn precreate(path: &Path, pre: u8, valid: &str) {
    match pre {
        1 => {
            let _ = std::fs::write(path, "#".repeat(6000));
        }
        2 => {
            let mut t = String::new();
            while t.len() < 6000 {
                t += valid;
            }
            let _ = std::fs::write(path, t);
        }
        _ => {}
    }
}

/// A symbolic link `<scratch>/<name>` -> /dev/full: every write(2) through it fails with ENOSPC.
pub fn enospc_target(s: &Scratch, name: &str) -> PathBuf {
    let p = s.path(name);
    let _ = std::fs::remove_file(&p);
    std::os::unix::fs::symlink("/dev/full", &p).expect("symlink to /dev/full");
    p
}

/// Is the path still the link to the device (and not something the code under test put there)?
pub fn still_link_to_full(p: &Path) -> bool {
    std::fs::symlink_metadata(p).map(|m| m.file_type().is_symlink()).unwrap_or(false)
}

/// Harness precondition: /dev/full is the character device (1, 7) and refuses writes with ENOSPC.
pub fn check_dev_full() -> Result<(), String> {
    use std::os::unix::fs::{FileTypeExt, MetadataExt};
    let m = std::fs::metadata("/dev/full").map_err(|e| format!("/dev/full: {e}"))?;
    if !m.file_type().is_char_device() || m.rdev() != libc::makedev(1, 7) {
        return Err("/dev/full is not the character device (1, 7) - restore it with: rm -f /dev/full && mknod -m 666 /dev/full c 1 7".into());
    }
    use std::io::Write;
    let mut f = std::fs::OpenOptions::new().write(true).open("/dev/full").map_err(|e| format!("/dev/full: {e}"))?;
    match f.write(b"x") {
        Err(e) if e.raw_os_error() == Some(libc::ENOSPC) => Ok(()),
        other => Err(format!("a write to /dev/full did not fail with ENOSPC: {other:?}")),
    }
}

/// Child process printing to stdout (no -o), no fault.
pub fn run_child_stdout(bin: &Path, argv_tail: &[String]) -> CliResult {
    run_child_stdout_threads(bin, argv_tail, None)
}

/// Same, with the size of rayon's global pool fixed through RAYON_NUM_THREADS.
pub fn run_child_stdout_threads(bin: &Path, argv_tail: &[String], threads: Option<usize>) -> CliResult {
    let mut cmd = Command::new(bin);
    cmd.args(argv_tail).stdin(Stdio::null());
    if let Some(t) = threads {
        cmd.env("RAYON_NUM_THREADS", t.to_string());
    }
    let o = match output_locked(&mut cmd) {
        Ok(o) => o,
        Err(e) => return CliResult::Err(format!("spawn: {e}")),
    };
    let stderr = String::from_utf8_lossy(&o.stderr).to_string();
    match o.status.code() {
        Some(0) => CliResult::Ok(Some(String::from_utf8_lossy(&o.stdout).to_string())),
        Some(101) => CliResult::Panic(first_line(&stderr)),
        Some(c) => CliResult::Err(format!("exit {c}: {}", first_line(&stderr))),
        None => CliResult::Panic("killed by signal".into()),
    }
}

fn first_line(s: &str) -> String {
    let l = s.lines().find(|l| !l.trim().is_empty()).unwrap_or("");
    l.chars().take(200).collect()
}

/// `Command::output()` with the fork/exec step under SPAWN_LOCK.
pub fn output_locked(cmd: &mut Command) -> std::io::Result<std::process::Output> {
    cmd.stdout(Stdio::piped()).stderr(Stdio::piped());
    let child = {
        let _g = SPAWN_LOCK.lock().unwrap_or_else(|e| e.into_inner());
        cmd.spawn()?
    };
    child.wait_with_output()
}

// ---------------------------------------------------------------------------------------------
// System-call seam for child processes (LD_PRELOAD shim, faultio/qfault.c): the simulator decides
// what the n-th open / read / write on a descriptor below the run's scratch directory (and, if
// asked, on stdout) does — proceed, transfer fewer bytes than requested, fail once with EINTR, or
// fail with a chosen errno.

#[derive(Clone, Debug, Serialize, Deserialize, PartialEq)]
pub enum Tok {
    Ok,
    /// transfer at most this many bytes (a legal short read / short write)
    Short(u32),
    /// fail with EINTR, nothing transferred (the caller is expected to retry)
    Eintr,
    /// fail with this errno, nothing transferred
    Errno(i32),
}

impl Tok {
    fn enc(&self) -> String {
        match self {
            Tok::Ok => "k".into(),
            Tok::Short(n) => format!("s{}", (*n).max(1)),
            Tok::Eintr => "i".into(),
            Tok::Errno(e) => format!("e{e}"),
        }
    }
    pub fn transparent(&self) -> bool {
        !matches!(self, Tok::Errno(_))
    }
}

#[derive(Clone, Debug, Default, Serialize, Deserialize, PartialEq)]
pub struct SysPlan {
    pub reads: Vec<Tok>,
    pub writes: Vec<Tok>,
    pub opens: Vec<Tok>,
}

/// What the shim reports for one tracked call.
#[derive(Clone, Debug, PartialEq)]
pub struct SysEvent {
    pub op: char,
    pub tok: String,
    pub asked: i64,
    pub result: i64,
    /// index of the scheduled worker thread that made the call (thread scheduler on), else -1
    pub thread: i32,
}

impl SysEvent {
    /// evidence name of the fault that actually fired, None for an undisturbed call
    pub fn fault_name(&self) -> Option<String> {
        let op = match self.op {
            'R' => "read",
            'W' => "write",
            'O' => "open",
            _ => return None,
        };
        let k = self.tok.chars().next().unwrap_or('k');
        match k {
            's' if self.result >= 0 && self.result < self.asked => Some(format!("sys_short_{op}")),
            'i' => Some(format!("sys_eintr_{op}")),
            'e' => Some(format!("sys_errno_{op}.{}", errno_name(self.tok[1..].parse().unwrap_or(0)))),
            _ => None,
        }
    }
    /// What of the event goes into a run's digest: everything except raw descriptor numbers (the
    /// result of an `open` is whatever number the kernel had free - it differs between processes
    /// that inherited different descriptors - so only its sign is kept).
    pub fn digest_text(&self) -> String {
        let r = if self.op == 'O' { self.result.signum() } else { self.result };
        format!("{}{}{} {} {}", self.thread, self.op, self.tok, self.asked, r)
    }
    pub fn is_hard_error(&self) -> bool {
        self.tok.starts_with('e')
    }
}

pub fn errno_name(e: i32) -> &'static str {
    match e {
        libc::EIO => "EIO",
        libc::ENOSPC => "ENOSPC",
        libc::EDQUOT => "EDQUOT",
        libc::EMFILE => "EMFILE",
        libc::ENFILE => "ENFILE",
        libc::EACCES => "EACCES",
        libc::ENOMEM => "ENOMEM",
        libc::EAGAIN => "EAGAIN",
        libc::EFBIG => "EFBIG",
        libc::EROFS => "EROFS",
        _ => "other",
    }
}

impl SysPlan {
    pub fn env(&self) -> String {
        let s = |v: &Vec<Tok>| v.iter().map(|t| t.enc()).collect::<Vec<_>>().join(",");
        format!("R:{};W:{};O:{}", s(&self.reads), s(&self.writes), s(&self.opens))
    }
    pub fn is_empty(&self) -> bool {
        self.reads.is_empty() && self.writes.is_empty() && self.opens.is_empty()
    }
}

/// A plan drawn from the decider. `hard` allows errno failures (after which the program may fail);
/// without it the plan holds only short transfers and EINTR, which a correct program survives.
/// Most tokens are "proceed": the programs under test issue only a handful of calls per file, so a
/// fault in every position would mostly test the first one.
pub fn gen_sysplan(d: &mut Decider, hard: bool) -> SysPlan {
    fn stream(d: &mut Decider, tag: &'static str, hard: bool, errs: &[i32], open: bool) -> Vec<Tok> {
        let len = d.choose(tag, 7);
        let dense = d.coin(tag, 1, 3);
        let mut v = vec![];
        let mut hard_used = false;
        for _ in 0..len {
            let r = d.choose(tag, if dense { 6 } else { 12 });
            let t = match r {
                0 | 1 if !open => Tok::Short(*d.pick(tag, &[1u32, 1, 2, 3, 5, 7, 16, 31, 64, 100, 511, 1000, 4095, 8191])),
                2 => Tok::Eintr,
                3 if hard && !hard_used => {
                    hard_used = true;
                    Tok::Errno(*d.pick(tag, errs))
                }
                _ => Tok::Ok,
            };
            v.push(t);
        }
        v
    }
    SysPlan {
        reads: stream(d, "sys.r", hard, &[libc::EIO, libc::EIO, libc::ENOMEM, libc::EAGAIN], false),
        writes: stream(d, "sys.w", hard, &[libc::ENOSPC, libc::ENOSPC, libc::EIO, libc::EDQUOT, libc::EFBIG], false),
        opens: stream(d, "sys.o", hard, &[libc::EMFILE, libc::EACCES, libc::ENOMEM, libc::ENFILE, libc::EROFS], true),
    }
}

/// Simpler plans: one stream emptied, one token dropped or replaced by "proceed".
pub fn shrink_sysplan(p: &SysPlan) -> Vec<SysPlan> {
    let mut c = vec![];
    for which in 0..3 {
        let get = |q: &SysPlan| match which {
            0 => q.reads.clone(),
            1 => q.writes.clone(),
            _ => q.opens.clone(),
        };
        let set = |q: &mut SysPlan, v: Vec<Tok>| match which {
            0 => q.reads = v,
            1 => q.writes = v,
            _ => q.opens = v,
        };
        let v = get(p);
        if v.is_empty() {
            continue;
        }
        let mut q = p.clone();
        set(&mut q, vec![]);
        c.push(q);
        if v.last() == Some(&Tok::Ok) {
            let mut q = p.clone();
            let mut w = v.clone();
            w.pop();
            set(&mut q, w);
            c.push(q);
        }
        for i in 0..v.len() {
            if v[i] != Tok::Ok {
                let mut q = p.clone();
                let mut w = v.clone();
                w[i] = Tok::Ok;
                set(&mut q, w);
                c.push(q);
            }
        }
    }
    c
}

pub fn parse_syslog(p: &Path) -> Vec<SysEvent> {
    let mut v = vec![];
    if let Ok(t) = std::fs::read_to_string(p) {
        for l in t.lines() {
            let f: Vec<&str> = l.split(' ').collect();
            if f.len() >= 4 {
                v.push(SysEvent {
                    op: f[0].chars().next().unwrap_or('?'),
                    tok: f[1].to_string(),
                    asked: f[2].parse().unwrap_or(0),
                    result: f[3].parse().unwrap_or(0),
                    thread: f.get(4).and_then(|t| t.strip_prefix('T')).and_then(|t| t.parse().ok()).unwrap_or(-1),
                });
            }
        }
    }
    v
}

pub fn qfault_so() -> PathBuf {
    std::env::var("QSIM_QFAULT_SO").map(PathBuf::from).expect("QSIM_QFAULT_SO not set (bin/check builds faultio/qfault.c)")
}

/// Arm a command with the shim. The log goes next to (not inside) the tracked directory.
pub fn arm_sys(cmd: &mut Command, tracked_dir: &Path, plan: &SysPlan, track_stdout: bool) -> PathBuf {
    let mut dir = tracked_dir.to_string_lossy().to_string();
    if !dir.ends_with('/') {
        dir.push('/');
    }
    let log = PathBuf::from(format!("{}.syslog", dir.trim_end_matches('/')));
    let _ = std::fs::remove_file(&log);
    cmd.env("LD_PRELOAD", qfault_so())
        .env("QFAULT_PLAN", plan.env())
        .env("QFAULT_DIR", dir)
        .env("QFAULT_LOG", &log)
        .env("QFAULT_STDOUT", if track_stdout { "1" } else { "0" });
    log
}

/// The shipped binary as a child under the system-call seam. `to_stdout`: the result is printed
/// (stdout is a pipe read by the harness, and fd 1 is tracked); otherwise it goes to `-o <scratch>/out.txt`.
pub fn run_child_sys(bin: &Path, argv_tail: &[String], s: &Scratch, plan: &SysPlan, to_stdout: bool) -> (CliResult, Vec<SysEvent>) {
    let mut args: Vec<String> = argv_tail.to_vec();
    let out_path = s.path("out.txt");
    if !to_stdout {
        args.push("-o".into());
        args.push(out_path.to_string_lossy().to_string());
    }
    let mut cmd = Command::new(bin);
    cmd.args(&args).stdin(Stdio::null());
    let log = arm_sys(&mut cmd, &s.dir, plan, to_stdout);
    let o = match output_locked(&mut cmd) {
        Ok(o) => o,
        Err(e) => return (CliResult::Err(format!("spawn: {e}")), vec![]),
    };
    let events = parse_syslog(&log);
    let _ = std::fs::remove_file(&log);
    let stderr = String::from_utf8_lossy(&o.stderr).to_string();
    let res = match o.status.code() {
        Some(0) => {
            let text = if to_stdout { Some(String::from_utf8_lossy(&o.stdout).to_string()) } else { std::fs::read_to_string(&out_path).ok() };
            CliResult::Ok(text)
        }
        Some(101) => CliResult::Panic(first_line(&stderr)),
        Some(c) => CliResult::Err(format!("exit {c}: {}", first_line(&stderr))),
        None => CliResult::Panic(format!("killed by signal: {}", first_line(&stderr))),
    };
    (res, events)
}
