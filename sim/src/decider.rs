//! The single decision source of a run.
//!
//! Every choice a run makes — generated workload, configuration, values handed
//! to the code under test through the RNG seam, hash keys, fork–join schedules,
//! faults — is drawn here.  A `Seeded` decider derives everything from one
//! integer; a `Replay` decider returns a recorded trace (clamped to the current
//! range) and continues from a PRNG seeded by the trace's hash once exhausted.
//! Logging never draws.

use serde::{Deserialize, Serialize};

#[derive(Clone, Debug)]
pub struct Xoshiro {
    s: [u64; 4],
}

pub fn splitmix64(x: &mut u64) -> u64 {
    *x = x.wrapping_add(0x9E37_79B9_7F4A_7C15);
    let mut z = *x;
    z = (z ^ (z >> 30)).wrapping_mul(0xBF58_476D_1CE4_E5B9);
    z = (z ^ (z >> 27)).wrapping_mul(0x94D0_49BB_1331_11EB);
    z ^ (z >> 31)
}

pub fn mix(a: u64, b: u64) -> u64 {
    let mut x = a ^ b.rotate_left(32) ^ 0xD6E8_FEB8_6659_FD93;
    let r = splitmix64(&mut x);
    let mut y = r ^ b;
    splitmix64(&mut y)
}

pub fn hash_str(s: &str) -> u64 {
    // FNV-1a
    let mut h: u64 = 0xcbf2_9ce4_8422_2325;
    for b in s.bytes() {
        h ^= b as u64;
        h = h.wrapping_mul(0x0000_0100_0000_01B3);
    }
    h
}

impl Xoshiro {
    pub fn new(seed: u64) -> Self {
        let mut x = seed;
        let s = [
            splitmix64(&mut x),
            splitmix64(&mut x),
            splitmix64(&mut x),
            splitmix64(&mut x),
        ];
        Xoshiro { s }
    }
    pub fn next(&mut self) -> u64 {
        let result = self.s[1].wrapping_mul(5).rotate_left(7).wrapping_mul(9);
        let t = self.s[1] << 17;
        self.s[2] ^= self.s[0];
        self.s[3] ^= self.s[1];
        self.s[1] ^= self.s[2];
        self.s[0] ^= self.s[3];
        self.s[2] ^= t;
        self.s[3] = self.s[3].rotate_left(45);
        result
    }
}

/// One recorded decision. `n == 0` means a raw 64-bit draw.
#[derive(Clone, Debug, Serialize, Deserialize, PartialEq, Eq)]
pub struct Dec {
    pub site: String,
    pub n: u64,
    pub v: u64,
}

enum Mode {
    Seeded,
    Replay { vals: Vec<u64>, pos: usize },
}

pub struct Decider {
    mode: Mode,
    rng: Xoshiro,
    pub trace: Vec<Dec>,
    /// running digest of everything decided (for determinism diffs)
    pub digest: u64,
    /// number of decisions taken
    pub count: u64,
    pub record_sites: bool,
    /// > 0: values handed to the code under test as randomness (`draw_rng`) are *sticky*: seven
    /// times in eight one of the last `sticky` values is handed out again. Every finite sequence
    /// of draws is a legal execution of a random algorithm; streaks of equal draws are the ones a
    /// uniform source practically never produces and rejection loops, duplicate checks and
    /// tie-breaks only meet there.
    pub sticky: u8,
    recent: Vec<u64>,
}

impl Decider {
    /// Randomness for the code under test (ambient RNG seam, caller-supplied `impl Rng`).
    pub fn draw_rng(&mut self, site: &str) -> u64 {
        if self.sticky > 0 && !self.recent.is_empty() && self.choose("rng.sticky", 8) != 0 {
            let i = self.choose("rng.sticky.which", self.recent.len());
            return self.recent[i];
        }
        let v = self.draw64(site);
        if self.sticky > 0 {
            if self.recent.len() >= self.sticky as usize {
                self.recent.remove(0);
            }
            self.recent.push(v);
        }
        v
    }

    pub fn seeded(seed: u64) -> Self {
        Decider {
            mode: Mode::Seeded,
            rng: Xoshiro::new(seed),
            trace: Vec::new(),
            digest: 0x1234_5678_9abc_def0,
            count: 0,
            record_sites: true,
            sticky: 0,
            recent: Vec::new(),
        }
    }

    pub fn replay(vals: Vec<u64>) -> Self {
        let mut h = 0x51ed_270b_a5a5_5a5au64;
        for v in &vals {
            h = mix(h, *v);
        }
        Decider {
            mode: Mode::Replay { vals, pos: 0 },
            rng: Xoshiro::new(h),
            trace: Vec::new(),
            digest: 0x1234_5678_9abc_def0,
            count: 0,
            record_sites: true,
            sticky: 0,
            recent: Vec::new(),
        }
    }

    pub fn values(&self) -> Vec<u64> {
        self.trace.iter().map(|d| d.v).collect()
    }

    /// (value, whether it came from a recorded trace)
    fn raw(&mut self) -> (u64, bool) {
        match &mut self.mode {
            Mode::Seeded => (self.rng.next(), false),
            Mode::Replay { vals, pos } => {
                if *pos < vals.len() {
                    let v = vals[*pos];
                    *pos += 1;
                    (v, true)
                } else {
                    (self.rng.next(), false)
                }
            }
        }
    }

    fn log(&mut self, site: &str, n: u64, v: u64) {
        self.count += 1;
        self.digest = mix(self.digest, mix(n, v));
        self.trace.push(Dec {
            site: if self.record_sites {
                site.to_string()
            } else {
                String::new()
            },
            n,
            v,
        });
    }

    /// Uniform in `0..n` (n >= 1).
    pub fn choose(&mut self, site: &str, n: usize) -> usize {
        assert!(n >= 1, "choose with empty range at {site}");
        let n64 = n as u64;
        let (r, recorded) = self.raw();
        let v = if recorded {
            // recorded decision: clamp into the current range
            r % n64
        } else {
            ((r as u128 * n64 as u128) >> 64) as u64
        };
        self.log(site, n64, v);
        v as usize
    }

    /// Raw 64 bits (handed to code under test, or used as a key).
    pub fn draw64(&mut self, site: &str) -> u64 {
        let (v, _) = self.raw();
        self.log(site, 0, v);
        v
    }

    /// True with probability num/den.
    pub fn coin(&mut self, site: &str, num: usize, den: usize) -> bool {
        self.choose(site, den) < num
    }

    /// Uniform in lo..=hi.
    pub fn range(&mut self, site: &str, lo: i64, hi: i64) -> i64 {
        assert!(hi >= lo);
        lo + self.choose(site, (hi - lo + 1) as usize) as i64
    }

    pub fn pick<'a, T>(&mut self, site: &str, xs: &'a [T]) -> &'a T {
        &xs[self.choose(site, xs.len())]
    }

    /// Fisher–Yates permutation of 0..n.
    pub fn permutation(&mut self, site: &str, n: usize) -> Vec<usize> {
        let mut p: Vec<usize> = (0..n).collect();
        for i in (1..n).rev() {
            let j = self.choose(site, i + 1);
            p.swap(i, j);
        }
        p
    }
}

/// An `rand::RngCore` over a decider, for APIs that take `impl Rng` (the seam
/// that already exists in the rank-width code and the generators).
pub struct DeciderRng<'a> {
    pub d: &'a mut Decider,
    pub site: &'static str,
    pub draws: u64,
    /// abort (panic with this marker) after this many draws: bounded progress
    pub limit: u64,
}

pub const DRAW_LIMIT_MARKER: &str = "QSIM_DRAW_LIMIT";

impl rand::RngCore for DeciderRng<'_> {
    fn next_u32(&mut self) -> u32 {
        (self.next_u64() >> 32) as u32
    }
    fn next_u64(&mut self) -> u64 {
        self.draws += 1;
        if self.draws > self.limit {
            panic!("{}", DRAW_LIMIT_MARKER);
        }
        self.d.draw_rng(self.site)
    }
    fn fill_bytes(&mut self, dst: &mut [u8]) {
        for chunk in dst.chunks_mut(8) {
            let b = self.next_u64().to_le_bytes();
            chunk.copy_from_slice(&b[..chunk.len()]);
        }
    }
}
