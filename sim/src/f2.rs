//! Oracle F: rank over GF(2) by bit-row elimination.

/// rows[i] bit j = entry (i, j); up to 128 columns.
pub fn rank(mut rows: Vec<u128>) -> usize {
    let mut r = 0;
    let n = rows.len();
    for bit in 0..128 {
        let m = 1u128 << bit;
        if let Some(p) = (r..n).find(|&i| rows[i] & m != 0) {
            rows.swap(r, p);
            let pr = rows[r];
            for (i, row) in rows.iter_mut().enumerate() {
                if i != r && *row & m != 0 {
                    *row ^= pr;
                }
            }
            r += 1;
            if r == n {
                break;
            }
        }
    }
    r
}

/// Same for any number of columns: rows as little-endian words.
pub fn rank_wide(mut rows: Vec<Vec<u64>>, ncols: usize) -> usize {
    let mut r = 0;
    let n = rows.len();
    for bit in 0..ncols {
        let (w, m) = (bit / 64, 1u64 << (bit % 64));
        if let Some(p) = (r..n).find(|&i| rows[i][w] & m != 0) {
            rows.swap(r, p);
            let pr = rows[r].clone();
            for (i, row) in rows.iter_mut().enumerate() {
                if i != r && row[w] & m != 0 {
                    for (x, y) in row.iter_mut().zip(pr.iter()) {
                        *x ^= *y;
                    }
                }
            }
            r += 1;
            if r == n {
                break;
            }
        }
    }
    r
}

pub fn self_test() -> Result<(), String> {
    if rank_wide(vec![vec![0b101, 1], vec![0b011, 0], vec![0b110, 1]], 65) != 2 {
        return Err("f2 rank wide".into());
    }
    if rank(vec![0b11, 0b11, 0b01]) != 2 {
        return Err("f2 rank 1".into());
    }
    if rank(vec![0b111, 0b011, 0b001]) != 3 {
        return Err("f2 rank 2".into());
    }
    if rank(vec![0, 0]) != 0 {
        return Err("f2 rank 3".into());
    }
    if rank(vec![0b101, 0b011, 0b110]) != 2 {
        return Err("f2 rank 4".into());
    }
    Ok(())
}
