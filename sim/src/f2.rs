//! Oracle F: rank over GF(2) by bit-row elimination.

/// rows[i] bit j = entry (i, j); up to 128 columns.
pub fn rank(mut rows: Vec<u128>) -> usize {
    let mut r = 0;
    let n = rows.len();
    for bit in 0..128 {
        let m = 1u128 << bit;
        if let Some(p) = (r..n).find(|&i| rows[i] & m != 0) {
            rows.swap(r, p);
            let pr = rows[r];
            for (i, row) in rows.iter_mut().enumerate() {
                if i != r && *row & m != 0 {
                    *row ^= pr;
                }
            }
            r += 1;
            if r == n {
                break;
            }
        }
    }
    r
}

pub fn self_test() -> Result<(), String> {
    if rank(vec![0b11, 0b11, 0b01]) != 2 {
        return Err("f2 rank 1".into());
    }
    if rank(vec![0b111, 0b011, 0b001]) != 3 {
        return Err("f2 rank 2".into());
    }
    if rank(vec![0, 0]) != 0 {
        return Err("f2 rank 3".into());
    }
    if rank(vec![0b101, 0b011, 0b110]) != 2 {
        return Err("f2 rank 4".into());
    }
    Ok(())
}
