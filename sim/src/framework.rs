//! Batch runner, known-findings matching, shrinking, replay files, evidence.

use crate::decider::{hash_str, mix, Decider};
use serde::{de::DeserializeOwned, Deserialize, Serialize};
use serde_json::{json, Value};
use std::collections::{BTreeMap, BTreeSet};
use std::sync::atomic::{AtomicBool, AtomicUsize, Ordering};
use std::time::Instant;

#[derive(Clone, Copy, Debug, PartialEq, Eq)]
pub enum Tier {
    Quick,
    Thorough,
}

impl Tier {
    pub fn name(&self) -> &'static str {
        match self {
            Tier::Quick => "quick",
            Tier::Thorough => "thorough",
        }
    }
}

#[derive(Clone, Debug, Serialize, Deserialize, PartialEq)]
pub struct Violation {
    /// violation class, e.g. "sample_zero_probability"
    pub class: String,
    /// the minimal triggering shape (matched against known findings)
    pub sig: BTreeMap<String, String>,
    pub detail: String,
}

impl Violation {
    pub fn new(class: &str, detail: impl Into<String>) -> Violation {
        Violation {
            class: class.to_string(),
            sig: BTreeMap::new(),
            detail: detail.into(),
        }
    }
    pub fn with(mut self, k: &str, v: impl Into<String>) -> Violation {
        self.sig.insert(k.to_string(), v.into());
        self
    }
    pub fn key(&self) -> String {
        let mut s = self.class.clone();
        for (k, v) in &self.sig {
            s += &format!("|{k}={v}");
        }
        s
    }
}

#[derive(Default, Debug, Clone)]
pub struct RunOut {
    pub violations: Vec<Violation>,
    pub inconclusive: bool,
    pub nontrivial: bool,
    pub scenario_digest: u64,
    /// digest of everything observable in the run (decisions, results, logs)
    pub event_digest: u64,
    pub steps: u64,
    pub faults: BTreeMap<String, u64>,
    pub probes: BTreeMap<String, u64>,
    pub counters: BTreeMap<String, u64>,
    /// digests whose distinct values are counted across the batch, by name
    pub distinct: BTreeMap<String, u64>,
    pub sample: Option<Value>,
    pub exec_trace: Vec<u64>,
    pub engine: &'static str,
    /// the run did not come back within the wall-clock limit and was abandoned (its thread is left
    /// behind); never a verdict
    pub hung: bool,
}

impl RunOut {
    pub fn fault(&mut self, k: &str) {
        *self.faults.entry(k.to_string()).or_insert(0) += 1;
    }
    pub fn probe(&mut self, k: &str) {
        *self.probes.entry(k.to_string()).or_insert(0) += 1;
    }
    pub fn count(&mut self, k: &str, n: u64) {
        *self.counters.entry(k.to_string()).or_insert(0) += n;
    }
    pub fn ev(&mut self, x: u64) {
        self.event_digest = mix(self.event_digest, x);
    }
    pub fn ev_str(&mut self, s: &str) {
        self.event_digest = mix(self.event_digest, hash_str(s));
    }
}

pub struct SubBatch {
    pub name: &'static str,
    pub quick: usize,
    pub thorough: usize,
}

pub trait Property: Sync + Send + Copy + 'static {
    type Sc: Serialize + DeserializeOwned + Clone + Send + Sync + std::fmt::Debug + 'static;
    fn id(&self) -> &'static str;
    fn level(&self) -> &'static str;
    fn rule(&self) -> String;
    fn assumptions(&self) -> Vec<String>;
    fn real_vs_stub(&self) -> Value;
    fn sub_batches(&self) -> Vec<SubBatch>;
    fn generate(&self, d: &mut Decider, tier: Tier, sub: &str) -> Self::Sc;
    fn execute(&self, sc: &Self::Sc, sub: &str, exec: Decider, env: &Env) -> RunOut;
    /// Smaller variants of a scenario, most aggressive first.
    fn shrink(&self, sc: &Self::Sc) -> Vec<Self::Sc>;
    /// Harness self-tests (oracles); Err => exit 2.
    fn self_test(&self) -> Result<(), String> {
        Ok(())
    }
    /// extra evidence fields computed after the batch
    fn extra_evidence(&self, _env: &Env, _tier: Tier) -> Value {
        json!({})
    }
    /// probes that must be non-zero in a thorough run (warning otherwise)
    fn expected_probes(&self) -> Vec<&'static str> {
        vec![]
    }
}

/// Environment shared by the runs of a batch.
#[derive(Clone)]
pub struct Env {
    pub seed: u64,
    pub tier: Tier,
    pub scratch: std::path::PathBuf,
    pub quizx_bin: Option<std::path::PathBuf>,
    pub self_exe: std::path::PathBuf,
}

#[derive(Deserialize, Debug, Clone)]
pub struct KnownFinding {
    pub property: String,
    pub class: String,
    #[serde(default)]
    pub r#match: BTreeMap<String, String>,
    pub what: String,
}

#[derive(Deserialize, Debug, Clone, Default)]
pub struct KnownFile {
    #[serde(default)]
    pub findings: Vec<KnownFinding>,
    #[serde(default)]
    pub fixed: Vec<String>,
}

/// Root of the verification tree (evidence/, replays/, known_findings.json).
pub fn root_dir() -> std::path::PathBuf {
    std::path::PathBuf::from(std::env::var("QSIM_ROOT").unwrap_or_else(|_| "/verif".to_string()))
}

pub fn load_known(path: &std::path::Path) -> Result<KnownFile, String> {
    match std::fs::read_to_string(path) {
        Ok(s) => serde_json::from_str(&s).map_err(|e| format!("known_findings.json: {e}")),
        Err(_) => Ok(KnownFile::default()),
    }
}

pub fn match_known<'a>(known: &'a KnownFile, prop: &str, v: &Violation) -> Option<&'a KnownFinding> {
    known.findings.iter().find(|f| {
        f.property == prop
            && f.class == v.class
            && f.r#match.iter().all(|(k, val)| v.sig.get(k) == Some(val))
    })
}

pub fn run_seed(seed: u64, prop: &str, sub: &str, idx: usize) -> u64 {
    mix(mix(seed, hash_str(prop)), mix(hash_str(sub), idx as u64))
}

#[derive(Serialize, Deserialize, Debug, Clone)]
pub struct ReplayFile {
    pub property: String,
    pub seed: u64,
    pub sub_batch: String,
    pub run_index: usize,
    pub scenario: Value,
    pub decisions: Vec<u64>,
    pub violation: Violation,
    pub minimised: bool,
    pub original_decisions: usize,
    pub note: String,
}

struct RunRec {
    sub: usize,
    idx: usize,
    out: RunOut,
}

pub struct BatchResult {
    pub exit: i32,
}

/// Execute one run on a fresh OS thread: `thread_local!` state of the code under test (caches,
/// scratch buffers, per-thread generators) starts empty in every run and cannot leak from one run
/// into the next through the harness's long-lived worker threads, so that a run - and its replay in
/// another process - is a function of its scenario and decisions only.
fn exec_fresh<P: Property>(p: &P, sc: &P::Sc, sub: &str, exec: Decider, env: &Env) -> RunOut {
    let (pp, sc2, sub2, env2) = (*p, sc.clone(), sub.to_string(), env.clone());
    let (tx, rx) = std::sync::mpsc::channel();
    let (tid_tx, tid_rx) = std::sync::mpsc::channel::<libc::pthread_t>();
    std::thread::Builder::new()
        .name("qsim-run".into())
        .stack_size(64 << 20)
        .spawn(move || {
            let _ = tid_tx.send(unsafe { libc::pthread_self() });
            crate::simcore::mark_harness_thread();
            let r = std::panic::catch_unwind(std::panic::AssertUnwindSafe(|| pp.execute(&sc2, &sub2, exec, &env2)));
            let _ = tx.send(r);
        })
        .expect("spawn run thread");
    let tid = tid_rx.recv().ok();
    // A run that blocks (a real lock held across a scheduling point of the simulated pool) or loops
    // for ever (a corrupted data structure walked by the code under test) is abandoned after the
    // limit: the run counts as hung - never as a verdict - and the batch goes on, so that violations
    // found by other runs are still minimised and reported. The abandoned thread is frozen with a
    // signal whose handler never returns: left running, a loop that allocates (observed: 0.4 GB per
    // second under seeded change C18-m10) takes the whole machine down before the batch ends.
    let mut waited = 0u64;
    loop {
        match rx.recv_timeout(std::time::Duration::from_secs(5)) {
            Ok(Ok(out)) => return out,
            Ok(Err(e)) => std::panic::resume_unwind(e),
            Err(std::sync::mpsc::RecvTimeoutError::Timeout) => {
                waited += 5;
                // memory pressure: a run that has been going for a while when the process has grown
                // beyond a third of the machine's memory is very likely the one that loops and allocates
                let mem_alarm = waited >= 10 && rss_fraction() > 0.33;
                if waited >= run_limit_s() || mem_alarm {
                    eprintln!("qsim: a run of sub-batch {sub} has not finished after {waited}s of wall clock and is abandoned (the code under test blocks or loops)");
                    if let Some(t) = tid {
                        freeze_thread(t);
                    }
                    return RunOut { engine: "native", inconclusive: true, hung: true, ..Default::default() };
                }
            }
            Err(std::sync::mpsc::RecvTimeoutError::Disconnected) => panic!("run thread vanished"),
        }
    }
}

extern "C" fn freeze_handler(_sig: libc::c_int) {
    loop {
        unsafe { libc::pause() };
    }
}

/// Stop a thread for good: SIGUSR2 with a handler that never returns (only `pause`, which is
/// async-signal-safe). The thread keeps whatever it holds; it just no longer runs or allocates.
fn freeze_thread(t: libc::pthread_t) {
    static INSTALL: std::sync::Once = std::sync::Once::new();
    INSTALL.call_once(|| unsafe {
        let mut sa: libc::sigaction = std::mem::zeroed();
        sa.sa_sigaction = freeze_handler as usize;
        libc::sigemptyset(&mut sa.sa_mask);
        libc::sigaction(libc::SIGUSR2, &sa, std::ptr::null_mut());
    });
    unsafe {
        libc::pthread_kill(t, libc::SIGUSR2);
    }
}

/// Resident set size of this process as a fraction of the machine's memory.
fn rss_fraction() -> f64 {
    let pages: f64 = std::fs::read_to_string("/proc/self/statm").ok().and_then(|t| t.split(' ').nth(1).and_then(|x| x.parse().ok())).unwrap_or(0.0);
    let total_kb: f64 = std::fs::read_to_string("/proc/meminfo")
        .ok()
        .and_then(|t| t.lines().find(|l| l.starts_with("MemTotal:")).and_then(|l| l.split_whitespace().nth(1).and_then(|x| x.parse().ok())))
        .unwrap_or(f64::MAX);
    pages * 4.0 / total_kb
}

/// Wall-clock limit for one run: QSIM_RUN_LIMIT_S (default 60 s), stretched by the load per core
/// (at most 8x) - on an overloaded machine a runnable thread can wait a long time for a core.
pub fn run_limit_s() -> u64 {
    let base: u64 = std::env::var("QSIM_RUN_LIMIT_S").ok().and_then(|s| s.parse().ok()).unwrap_or(60);
    let load = std::fs::read_to_string("/proc/loadavg").ok().and_then(|t| t.split(' ').next().and_then(|x| x.parse::<f64>().ok())).unwrap_or(0.0);
    let cores = std::thread::available_parallelism().map(|n| n.get()).unwrap_or(1) as f64;
    (base as f64 * (load / cores).clamp(1.0, 8.0)) as u64
}

fn one_run<P: Property>(p: &P, env: &Env, sub: &str, idx: usize) -> (P::Sc, RunOut) {
    let s = run_seed(env.seed, p.id(), sub, idx);
    let mut gen = Decider::seeded(mix(s, 0x6e6e));
    gen.record_sites = false;
    let sc = p.generate(&mut gen, env.tier, sub);
    let mut exec = Decider::seeded(mix(s, 0xe4ec));
    exec.record_sites = false;
    let mut out = exec_fresh(p, &sc, sub, exec, env);
    out.ev(gen.digest);
    (sc, out)
}

pub fn run_batch<P: Property>(p: &P, env: &Env, known: &KnownFile, threads: usize) -> BatchResult {
    let t0 = Instant::now();
    println!(
        "qsim: property={} tier={} VERIF_SEED={} threads={}",
        p.id(),
        env.tier.name(),
        env.seed,
        threads
    );
    if let Err(e) = p.self_test() {
        eprintln!("qsim: oracle self-test failed: {e}");
        return BatchResult { exit: 2 };
    }
    let subs = p.sub_batches();
    let mut plan: Vec<(usize, usize)> = vec![];
    // development aid: QSIM_ONLY_SUB=<name> runs one sub-batch only (the evidence then covers only that)
    let only_sub = std::env::var("QSIM_ONLY_SUB").ok();
    if let Some(o) = &only_sub {
        eprintln!("qsim: QSIM_ONLY_SUB={o}: only that sub-batch is run");
    }
    for (si, sb) in subs.iter().enumerate() {
        let mut n = match env.tier {
            Tier::Quick => sb.quick,
            Tier::Thorough => sb.thorough,
        };
        if only_sub.as_deref().map_or(false, |o| o != sb.name) {
            n = 0;
        }
        for i in 0..n {
            plan.push((si, i));
        }
    }
    // interleave sub-batches so that a wall-clock cap cuts all of them evenly
    plan.sort_by_key(|&(si, i)| (i, si));
    let wall_cap = match env.tier {
        Tier::Quick => 600.0,
        Tier::Thorough => 3.0 * 3600.0,
    };
    let wall_cap: f64 = std::env::var("QSIM_WALL_CAP")
        .ok()
        .and_then(|s| s.parse().ok())
        .unwrap_or(wall_cap);
    let next = AtomicUsize::new(0);
    let stop = AtomicBool::new(false);
    // watchdog: a single run that does not finish (a blocking primitive inside a simulated-pool
    // task, an endless loop) must not hang the check: exit 2 and name the run
    let run_limit_s: u64 = std::env::var("QSIM_RUN_LIMIT_S").ok().and_then(|s| s.parse().ok()).unwrap_or(120);
    let started: Vec<std::sync::atomic::AtomicU64> = (0..threads).map(|_| std::sync::atomic::AtomicU64::new(0)).collect();
    let current: Vec<std::sync::Mutex<String>> = (0..threads).map(|_| std::sync::Mutex::new(String::new())).collect();
    let all_done = AtomicBool::new(false);
    let harness_err: std::sync::Mutex<Option<String>> = std::sync::Mutex::new(None);
    let mut recs: Vec<RunRec> = vec![];
    std::thread::scope(|s| {
        let mut handles = vec![];
        // the watchdog thread
        s.spawn(|| {
            while !all_done.load(Ordering::Relaxed) {
                std::thread::sleep(std::time::Duration::from_millis(500));
                let now = t0.elapsed().as_secs();
                // on an overloaded machine (background sweeps, other builds) a runnable thread can
                // wait a long time for a core: stretch the limit by the load per core (at most 8x),
                // so that only a run that really blocks or loops is given up
                let load = std::fs::read_to_string("/proc/loadavg").ok().and_then(|t| t.split(' ').next().and_then(|x| x.parse::<f64>().ok())).unwrap_or(0.0);
                let cores = std::thread::available_parallelism().map(|n| n.get()).unwrap_or(1) as f64;
                let stretch = (load / cores).clamp(1.0, 8.0);
                // backstop only: exec_fresh abandons a run after the limit itself
                let run_limit_s = (3.0 * run_limit_s as f64 * stretch) as u64;
                for (ti, st) in started.iter().enumerate() {
                    let b = st.load(Ordering::Relaxed);
                    if b != 0 && now > b + run_limit_s {
                        let what = current[ti].lock().map(|g| g.clone()).unwrap_or_default();
                        eprintln!(
                            "qsim: run {what} has not finished after {run_limit_s}s of wall clock (load average {load:.1} on {cores} cores; the code under test blocks or loops; under the simulated worker pool a real lock held across a scheduling point does this). The check cannot decide. (exit 2)"
                        );
                        std::process::exit(2);
                    }
                }
            }
        });
        for ti in 0..threads {
            let started = &started;
            let current = &current;
            let next = &next;
            let stop = &stop;
            let plan = &plan;
            let subs = &subs;
            let harness_err = &harness_err;
            handles.push(s.spawn(move || {
                crate::simcore::mark_harness_thread();
                let mut local: Vec<RunRec> = vec![];
                loop {
                    if stop.load(Ordering::Relaxed) {
                        break;
                    }
                    let k = next.fetch_add(1, Ordering::Relaxed);
                    if k >= plan.len() {
                        break;
                    }
                    if t0.elapsed().as_secs_f64() > wall_cap {
                        stop.store(true, Ordering::Relaxed);
                        break;
                    }
                    let (si, idx) = plan[k];
                    if let Ok(mut g) = current[ti].lock() {
                        *g = format!("sub={} idx={}", subs[si].name, idx);
                    }
                    started[ti].store(t0.elapsed().as_secs().max(1), Ordering::Relaxed);
                    let r = std::panic::catch_unwind(std::panic::AssertUnwindSafe(|| {
                        one_run(p, env, subs[si].name, idx)
                    }));
                    started[ti].store(0, Ordering::Relaxed);
                    match r {
                        Ok((_sc, mut out)) => {
                            if out.violations.is_empty() {
                                out.exec_trace = vec![];
                            }
                            if k >= 3 * subs.len() {
                                out.sample = None;
                            }
                            local.push(RunRec { sub: si, idx, out });
                        }
                        Err(_) => {
                            let msg = crate::simcore::take_panic().unwrap_or_default();
                            *harness_err.lock().unwrap() = Some(format!(
                                "harness panic in run sub={} idx={}: {}",
                                subs[si].name, idx, msg
                            ));
                            stop.store(true, Ordering::Relaxed);
                            break;
                        }
                    }
                }
                local
            }));
        }
        for h in handles {
            if let Ok(mut l) = h.join() {
                recs.append(&mut l);
            }
        }
        all_done.store(true, Ordering::Relaxed);
    });
    if let Some(e) = harness_err.lock().unwrap().take() {
        eprintln!("qsim: {e}");
        return BatchResult { exit: 2 };
    }
    recs.sort_by_key(|r| (r.sub, r.idx));
    let capped = stop.load(Ordering::Relaxed);

    // ---- determinism sample -------------------------------------------------
    let det_n = match env.tier {
        Tier::Quick => 6,
        Tier::Thorough => 40,
    };
    let mut det_checked = 0usize;
    let mut det_mismatch = 0usize;
    let mut det_list: Vec<(usize, usize, u64)> = vec![];
    for r in recs.iter() {
        if r.idx < det_n {
            det_list.push((r.sub, r.idx, r.out.event_digest));
        }
    }
    // (a) same process, other thread (this one), sequentially
    for &(si, idx, dig) in &det_list {
        let (_sc, out) = one_run(p, env, subs[si].name, idx);
        det_checked += 1;
        if out.event_digest != dig {
            det_mismatch += 1;
            eprintln!(
                "qsim: NONDETERMINISM sub={} idx={} digest {:016x} vs {:016x}",
                subs[si].name, idx, dig, out.event_digest
            );
        }
    }
    // (b) fresh child process
    let mut child_checked = 0usize;
    if std::env::var("QSIM_NO_CHILD_DET").is_err() {
        let child = std::process::Command::new(&env.self_exe)
            .arg(p.id())
            .arg(env.tier.name())
            .arg("--digests")
            .arg(det_n.to_string())
            .env("VERIF_SEED", env.seed.to_string())
            .output();
        match child {
            Ok(o) if o.status.success() => {
                let txt = String::from_utf8_lossy(&o.stdout);
                let mut m = BTreeMap::new();
                for l in txt.lines() {
                    let f: Vec<&str> = l.split_whitespace().collect();
                    if f.len() == 4 && f[0] == "DIGEST" {
                        m.insert((f[1].to_string(), f[2].parse::<usize>().unwrap_or(0)), f[3].to_string());
                    }
                }
                for &(si, idx, dig) in &det_list {
                    if let Some(d) = m.get(&(subs[si].name.to_string(), idx)) {
                        child_checked += 1;
                        if *d != format!("{:016x}", dig) {
                            det_mismatch += 1;
                            eprintln!(
                                "qsim: NONDETERMINISM (child process) sub={} idx={} {:016x} vs {}",
                                subs[si].name, idx, dig, d
                            );
                        }
                    }
                }
            }
            Ok(o) => {
                eprintln!(
                    "qsim: determinism child failed: {}",
                    String::from_utf8_lossy(&o.stderr)
                );
                return BatchResult { exit: 2 };
            }
            Err(e) => {
                eprintln!("qsim: cannot spawn determinism child: {e}");
                return BatchResult { exit: 2 };
            }
        }
    }
    if det_mismatch > 0 {
        eprintln!("qsim: warning: {det_mismatch} re-executed run(s) differ from the batch: some source of nondeterminism is not behind a seam; replays may not reproduce");
    }

    // ---- reduce ---------------------------------------------------------------
    let evaluations = recs.len();
    let mut nontrivial: BTreeSet<(u64, u64)> = BTreeSet::new();
    let mut faults: BTreeMap<String, u64> = BTreeMap::new();
    let mut probes: BTreeMap<String, u64> = BTreeMap::new();
    let mut counters: BTreeMap<String, u64> = BTreeMap::new();
    let mut distinct: BTreeMap<String, BTreeSet<u64>> = BTreeMap::new();
    let mut steps = 0u64;
    let mut inconclusive = 0usize;
    let mut hung: Vec<String> = vec![];
    let mut samples: Vec<Value> = vec![];
    let mut per_sub: BTreeMap<String, (usize, usize)> = BTreeMap::new();
    let mut engines: BTreeMap<String, u64> = BTreeMap::new();
    for r in &recs {
        let o = &r.out;
        let e = per_sub.entry(subs[r.sub].name.to_string()).or_insert((0, 0));
        e.0 += 1;
        if o.nontrivial {
            e.1 += 1;
            nontrivial.insert((o.scenario_digest, o.event_digest));
        }
        for (k, v) in &o.faults {
            *faults.entry(k.clone()).or_insert(0) += v;
        }
        for (k, v) in &o.probes {
            *probes.entry(k.clone()).or_insert(0) += v;
        }
        for (k, v) in &o.counters {
            *counters.entry(k.clone()).or_insert(0) += v;
        }
        for (k, v) in &o.distinct {
            distinct.entry(k.clone()).or_default().insert(*v);
        }
        *engines.entry(o.engine.to_string()).or_insert(0) += 1;
        steps += o.steps;
        if o.hung {
            hung.push(format!("sub={} idx={}", subs[r.sub].name, r.idx));
        }
        if o.inconclusive {
            inconclusive += 1;
        }
        if let Some(s) = &o.sample {
            if samples.len() < 6 {
                // a sample is there to show what a case looks like, not to archive it: very large
                // scenarios (hundreds of vertices, thousands of edges or gates) are cut
                let txt = s.to_string();
                if txt.len() > 6000 {
                    let cut: String = txt.chars().take(3000).collect();
                    samples.push(json!({"truncated_sample": true, "original_length": txt.len(), "prefix": cut}));
                } else {
                    samples.push(s.clone());
                }
            }
        }
    }

    // ---- violations -------------------------------------------------------------
    let mut by_key: BTreeMap<String, Vec<&RunRec>> = BTreeMap::new();
    for r in &recs {
        for v in &r.out.violations {
            by_key.entry(v.key()).or_default().push(r);
        }
    }
    let mut unknown = 0usize;
    let mut known_hits: BTreeMap<String, u64> = BTreeMap::new();
    let mut violation_lines: Vec<String> = vec![];
    let replay_dir_buf = root_dir().join("replays");
    let replay_dir = replay_dir_buf.as_path();
    for (key, rs) in &by_key {
        let r = rs[0];
        let v = r.out.violations.iter().find(|v| v.key() == *key).unwrap().clone();
        if let Some(f) = match_known(known, p.id(), &v) {
            *known_hits.entry(format!("{} [{}]", f.what, key)).or_insert(0) += rs.len() as u64;
            continue;
        }
        unknown += 1;
        if unknown > 5 {
            // minimise and write replays for at most five distinct classes
            println!("qsim: violation class={} runs={} (not minimised; first: sub={} idx={}) detail: {}", key, rs.len(), subs[r.sub].name, r.idx, v.detail);
            continue;
        }
        // regenerate the scenario, confirm, minimise, write replay
        let sub = subs[r.sub].name;
        let s = run_seed(env.seed, p.id(), sub, r.idx);
        let mut gen = Decider::seeded(mix(s, 0x6e6e));
        gen.record_sites = false;
        let sc = p.generate(&mut gen, env.tier, sub);
        let (sc_min, dec_min, v_min, minimised) =
            minimise(p, env, sub, &sc, &r.out.exec_trace, &v, known);
        let _ = std::fs::create_dir_all(replay_dir);
        let path = replay_dir.join(format!("{}-{}-{}-{}.json", p.id(), env.seed, sub, r.idx));
        let rf = ReplayFile {
            property: p.id().to_string(),
            seed: env.seed,
            sub_batch: sub.to_string(),
            run_index: r.idx,
            scenario: serde_json::to_value(&sc_min).unwrap(),
            decisions: dec_min,
            violation: v_min.clone(),
            minimised,
            original_decisions: r.out.exec_trace.len(),
            note: format!(
                "replay: bin/check {} --replay {}",
                p.id(),
                path.display()
            ),
        };
        std::fs::write(&path, serde_json::to_string_pretty(&rf).unwrap()).ok();
        println!(
            "qsim: violation class={} runs={} first: sub={} idx={} detail: {}",
            key,
            rs.len(),
            sub,
            r.idx,
            v_min.detail
        );
        violation_lines.push(format!(
            "VIOLATION property={} replay={}",
            p.id(),
            path.display()
        ));
    }
    for (what, n) in &known_hits {
        println!("KNOWN-FINDING: property={} {} (hit in {} runs)", p.id(), what, n);
    }
    for l in &violation_lines {
        println!("{l}");
    }

    // ---- evidence -----------------------------------------------------------------
    let wall = t0.elapsed().as_secs_f64();
    let mut warn: Vec<String> = vec![];
    for pr in p.expected_probes() {
        if probes.get(pr).copied().unwrap_or(0) == 0 {
            warn.push(format!("probe '{pr}' stayed at zero"));
        }
    }
    if capped {
        warn.push(format!("wall-clock cap {wall_cap}s reached; batch cut short"));
    }
    let distinct_counts: BTreeMap<String, usize> =
        distinct.iter().map(|(k, v)| (k.clone(), v.len())).collect();
    let incon_frac = if evaluations > 0 {
        inconclusive as f64 / evaluations as f64
    } else {
        0.0
    };
    let ev = json!({
        "property_id": p.id(),
        "tier": env.tier.name(),
        "seed": env.seed,
        "level": p.level(),
        "wall_s": wall,
        "violations": unknown,
        "assumptions": p.assumptions(),
        "coverage": {
            "evaluations": evaluations,
            "distinct_nontrivial": nontrivial.len(),
            "rule": p.rule(),
            "samples": samples,
            "exhaustive": false,
            "runs_per_hour": if wall > 0.0 { (evaluations as f64 / wall * 3600.0) as u64 } else { 0 },
            "seeds": evaluations,
            "logical_steps": steps,
            "simulated_time": "n/a: the code under test has no clocks, timers or deadlines; runs are measured in logical steps",
            "per_sub_batch": per_sub.iter().map(|(k,(n,nt))| (k.clone(), json!({"runs": n, "nontrivial": nt}))).collect::<BTreeMap<_,_>>(),
            "fault_counts": faults,
            "probe_counts": probes,
            "counters": counters,
            "distinct_by_measure": distinct_counts,
            "engine_split": engines,
            "inconclusive_budget": inconclusive,
            "hung_runs_abandoned": hung.len(),
            "known_finding_hits": known_hits,
            "determinism_sample": {"runs_rerun_other_thread": det_checked, "runs_rerun_child_process": child_checked, "mismatches": det_mismatch},
            "real_vs_stub": p.real_vs_stub(),
            "warnings": warn,
            "extra": p.extra_evidence(env, env.tier),
        }
    });
    let evdir_buf = root_dir().join("evidence");
    let evdir = evdir_buf.as_path();
    let _ = std::fs::create_dir_all(evdir);
    let evpath = evdir.join(format!("{}.json", p.id()));
    if let Err(e) = std::fs::write(&evpath, serde_json::to_string_pretty(&ev).unwrap()) {
        eprintln!("qsim: cannot write evidence: {e}");
        return BatchResult { exit: 2 };
    }
    println!(
        "qsim: {} runs ({} distinct non-trivial), {} logical steps, {:.1}s, inconclusive={}, unknown violation classes={}, known-finding classes={}",
        evaluations,
        nontrivial.len(),
        steps,
        wall,
        inconclusive,
        unknown,
        known_hits.len()
    );
    for w in &warn {
        println!("qsim: warning: {w}");
    }
    if !hung.is_empty() {
        eprintln!(
            "qsim: {} run(s) did not come back within the wall-clock limit and were abandoned (the code under test blocks or loops there): {}. The properties checked here do not state termination, so this is not reported as a violation{}",
            hung.len(),
            hung.iter().take(5).cloned().collect::<Vec<_>>().join(", "),
            if unknown > 0 { "." } else { "; but the check cannot decide those runs. (exit 2)" }
        );
    }
    if unknown > 0 {
        return BatchResult { exit: 1 };
    }
    if !hung.is_empty() {
        return BatchResult { exit: 2 };
    }
    if det_mismatch > 0 {
        eprintln!("qsim: the simulation is not deterministic and no violation was found; nothing would replay. (exit 2)");
        return BatchResult { exit: 2 };
    }
    if incon_frac > 0.01 {
        eprintln!(
            "qsim: {:.2}% of the batch exceeded its step budget (inconclusive); the batch decided too little (exit 2)",
            100.0 * incon_frac
        );
        return BatchResult { exit: 2 };
    }
    if nontrivial.len() < 2 {
        eprintln!("qsim: fewer than two distinct non-trivial runs (exit 2)");
        return BatchResult { exit: 2 };
    }
    BatchResult { exit: 0 }
}

/// Execute (scenario, decisions) and return the first violation with the same class.
fn reproduces<P: Property>(
    p: &P,
    env: &Env,
    sub: &str,
    sc: &P::Sc,
    decisions: &[u64],
    target: &Violation,
) -> Option<(Violation, Vec<u64>)> {
    let mut exec = Decider::replay(decisions.to_vec());
    exec.record_sites = false;
    let r = std::panic::catch_unwind(std::panic::AssertUnwindSafe(|| exec_fresh(p, sc, sub, exec, env)));
    match r {
        Ok(out) => out
            .violations
            .iter()
            .find(|v| v.class == target.class && v.sig == target.sig)
            .cloned()
            .map(|v| (v, out.exec_trace.clone())),
        Err(_) => None,
    }
}

fn minimise<P: Property>(
    p: &P,
    env: &Env,
    sub: &str,
    sc: &P::Sc,
    decisions: &[u64],
    v: &Violation,
    _known: &KnownFile,
) -> (P::Sc, Vec<u64>, Violation, bool) {
    let t0 = Instant::now();
    let budget_s = 45.0;
    // confirm
    let (mut cur_v, mut cur_dec) = match reproduces(p, env, sub, sc, decisions, v) {
        Some(x) => x,
        None => {
            // does not reproduce from its own trace: report unminimised; replay will say so
            eprintln!("qsim: warning: violation did not reproduce from its recorded decisions");
            return (sc.clone(), decisions.to_vec(), v.clone(), false);
        }
    };
    let mut cur_sc = sc.clone();
    let mut execs = 0usize;
    // 1. scenario
    'outer: loop {
        if t0.elapsed().as_secs_f64() > budget_s || execs > 2000 {
            break;
        }
        for cand in p.shrink(&cur_sc) {
            execs += 1;
            if t0.elapsed().as_secs_f64() > budget_s {
                break 'outer;
            }
            if let Some((nv, nd)) = reproduces(p, env, sub, &cand, &cur_dec, v) {
                cur_sc = cand;
                cur_v = nv;
                cur_dec = nd;
                continue 'outer;
            }
        }
        break;
    }
    // 2. decisions: all-zero, then zero out chunks, then truncate
    let try_dec = |dec: Vec<u64>, cur_sc: &P::Sc| reproduces(p, env, sub, cur_sc, &dec, v);
    if !cur_dec.is_empty() {
        if let Some((nv, nd)) = try_dec(vec![0; cur_dec.len()], &cur_sc) {
            cur_v = nv;
            cur_dec = nd;
        } else {
            let mut chunk = cur_dec.len().div_ceil(2);
            while chunk >= 1 && t0.elapsed().as_secs_f64() < budget_s {
                let mut i = 0;
                while i < cur_dec.len() && t0.elapsed().as_secs_f64() < budget_s {
                    let hi = (i + chunk).min(cur_dec.len());
                    if cur_dec[i..hi].iter().any(|&x| x != 0) {
                        let mut d = cur_dec.clone();
                        for x in d[i..hi].iter_mut() {
                            *x = 0;
                        }
                        if let Some((nv, nd)) = try_dec(d, &cur_sc) {
                            if nd.len() <= cur_dec.len() {
                                cur_v = nv;
                                cur_dec = nd;
                            }
                        }
                    }
                    i += chunk;
                }
                if chunk == 1 {
                    break;
                }
                chunk = chunk.div_ceil(2);
                if cur_dec.len() > 400 && chunk < cur_dec.len() / 64 {
                    break;
                }
            }
        }
    }
    (cur_sc, cur_dec, cur_v, true)
}

pub fn replay_file<P: Property>(p: &P, env: &Env, path: &std::path::Path) -> i32 {
    let txt = match std::fs::read_to_string(path) {
        Ok(t) => t,
        Err(e) => {
            eprintln!("qsim: cannot read replay file: {e}");
            return 2;
        }
    };
    let rf: ReplayFile = match serde_json::from_str(&txt) {
        Ok(r) => r,
        Err(e) => {
            eprintln!("qsim: bad replay file: {e}");
            return 2;
        }
    };
    if rf.property != p.id() {
        eprintln!("qsim: replay file is for {}", rf.property);
        return 2;
    }
    let sc: P::Sc = match serde_json::from_value(rf.scenario.clone()) {
        Ok(s) => s,
        Err(e) => {
            eprintln!("qsim: bad scenario in replay file: {e}");
            return 2;
        }
    };
    let mut exec = Decider::replay(rf.decisions.clone());
    exec.record_sites = false;
    let out = exec_fresh(p, &sc, &rf.sub_batch, exec, env);
    println!("qsim: replay of {} ({} decisions)", path.display(), rf.decisions.len());
    println!("qsim: event digest {:016x}", out.event_digest);
    for v in &out.violations {
        println!("qsim: violation class={} detail: {}", v.key(), v.detail);
    }
    if out
        .violations
        .iter()
        .any(|v| v.class == rf.violation.class && v.sig == rf.violation.sig)
    {
        println!("VIOLATION property={} replay={}", p.id(), path.display());
        1
    } else {
        println!("qsim: recorded violation did not reproduce on this tree");
        0
    }
}

/// `--digests N`: print the event digests of the first N runs of every sub-batch.
pub fn print_digests<P: Property>(p: &P, env: &Env, n: usize) -> i32 {
    for sb in p.sub_batches() {
        let total = match env.tier {
            Tier::Quick => sb.quick,
            Tier::Thorough => sb.thorough,
        };
        for idx in 0..n.min(total) {
            let (_sc, out) = one_run(p, env, sb.name, idx);
            println!("DIGEST {} {} {:016x}", sb.name, idx, out.event_digest);
        }
    }
    0
}

/// `--run SUB IDX`: run one case verbosely (debugging aid).
pub fn run_single<P: Property>(p: &P, env: &Env, sub: &str, idx: usize) -> i32 {
    let (sc, out) = one_run(p, env, sub, idx);
    println!("scenario: {}", serde_json::to_string(&sc).unwrap());
    println!("nontrivial={} inconclusive={} steps={}", out.nontrivial, out.inconclusive, out.steps);
    println!("probes: {:?}", out.probes);
    println!("faults: {:?}", out.faults);
    println!("counters: {:?}", out.counters);
    for v in &out.violations {
        println!("violation {} : {}", v.key(), v.detail);
    }
    if out.violations.is_empty() {
        0
    } else {
        1
    }
}
