//! Oracle B: gate-matrix simulator with its own gate list type, its own QASM
//! printer and a small QASM parser.  Exact (Z[ω]/2^k) for Clifford+T, CCZ,
//! Toffoli, SWAP, XCX; complex f64 for arbitrary rational phases.
//!
//! Conventions: qubit i is bit i of a basis index; in a printed bit string,
//! character i is qubit i.  rz(a) = diag(1, e^{ia}); rx(a) = H rz(a) H.

use crate::ring::Zw;
use serde::{Deserialize, Serialize};

#[derive(Clone, Copy, Debug, PartialEq, Eq, Serialize, Deserialize)]
pub enum GK {
    /// Z phase, in half-turns num/den
    Rz(i64, i64),
    Rx(i64, i64),
    /// Z / X rotation whose angle the file states as a plain number plus a multiple of π:
    /// (a in 1/1000 rad, num, den) means a/1000 + π·num/den.  Never exact.
    RzMix(i64, i64, i64),
    RxMix(i64, i64, i64),
    X,
    Z,
    S,
    T,
    Sdg,
    Tdg,
    H,
    CX,
    CZ,
    CCX,
    CCZ,
    Swap,
    XCX,
}

#[derive(Clone, Debug, PartialEq, Eq, Serialize, Deserialize)]
pub struct HGate {
    pub k: GK,
    pub qs: Vec<usize>,
}

#[derive(Clone, Debug, PartialEq, Eq, Serialize, Deserialize)]
pub struct HCirc {
    pub n: usize,
    /// register sizes (sum = n); printed as q0, q1, ... when more than one
    pub regs: Vec<usize>,
    pub gates: Vec<HGate>,
    /// 0 = canonical text; otherwise a seed from which the printer derives, per statement, an
    /// equivalent spelling (phase written as pi*3/8, as a float times pi, shifted by 2pi,
    /// negative; a size-1 register named without index; upper-case CX; extra blanks and comments)
    #[serde(default)]
    pub style: u64,
    /// 0 = no user-defined gates; otherwise a seed from which the printer derives, per
    /// statement, whether the gate is called through a tower of 1..24 nested `gate` definitions
    /// (parameters and qubit arguments handed down level by level)
    #[serde(default)]
    pub defs: u64,
}

impl GK {
    pub fn arity(&self) -> usize {
        match self {
            GK::CX | GK::CZ | GK::Swap | GK::XCX => 2,
            GK::CCX | GK::CCZ => 3,
            _ => 1,
        }
    }
    pub fn name(&self) -> &'static str {
        match self {
            GK::Rz(..) | GK::RzMix(..) => "rz",
            GK::Rx(..) | GK::RxMix(..) => "rx",
            GK::X => "x",
            GK::Z => "z",
            GK::S => "s",
            GK::T => "t",
            GK::Sdg => "sdg",
            GK::Tdg => "tdg",
            GK::H => "h",
            GK::CX => "cx",
            GK::CZ => "cz",
            GK::CCX => "ccx",
            GK::CCZ => "ccz",
            GK::Swap => "swap",
            GK::XCX => "xcx",
        }
    }
    /// Z-like phase in half-turns (num, den) if the gate is a phase gate
    pub fn phase(&self) -> Option<(i64, i64)> {
        match *self {
            GK::Rz(n, d) | GK::Rx(n, d) => Some((n, d)),
            GK::RzMix(a, n, d) | GK::RxMix(a, n, d) => {
                // half-turns to 1e-12
                let h = (a as f64 / 1000.0) / std::f64::consts::PI + n as f64 / d as f64;
                Some(((h * 1e12).round() as i64, 1_000_000_000_000))
            }
            GK::Z | GK::X => Some((1, 1)),
            GK::S => Some((1, 2)),
            GK::Sdg => Some((-1, 2)),
            GK::T => Some((1, 4)),
            GK::Tdg => Some((-1, 4)),
            _ => None,
        }
    }
    /// True when the gate is in Clifford+T (phases multiples of π/4) or a permutation-like gate.
    pub fn is_exact(&self) -> bool {
        match self.phase() {
            Some((_, d)) => 4 % d == 0,
            None => true,
        }
    }
    pub fn is_non_clifford(&self) -> bool {
        match self.phase() {
            Some((n, d)) => {
                let g = gcd(n.abs(), d);
                let d = d / g.max(1);
                d != 1 && d != 2
            }
            None => matches!(self, GK::CCX | GK::CCZ),
        }
    }
}

fn gcd(a: i64, b: i64) -> i64 {
    if b == 0 {
        a.abs()
    } else {
        gcd(b, a % b)
    }
}

impl HCirc {
    pub fn new(n: usize) -> HCirc {
        HCirc {
            n,
            regs: vec![n],
            gates: vec![],
            style: 0,
            defs: 0,
        }
    }
    pub fn is_exact(&self) -> bool {
        self.gates.iter().all(|g| g.k.is_exact())
    }
    pub fn has(&self, f: impl Fn(&GK) -> bool) -> bool {
        self.gates.iter().any(|g| f(&g.k))
    }

    fn qname(&self, q: usize) -> String {
        if self.regs.len() <= 1 {
            format!("q[{q}]")
        } else {
            let mut off = 0;
            for (r, &sz) in self.regs.iter().enumerate() {
                if q < off + sz {
                    return format!("r{}[{}]", r, q - off);
                }
                off += sz;
            }
            panic!("qubit out of range")
        }
    }

    /// The statements of the program, one per gate (the header is separate), so
    /// that the harness knows the statement boundaries it printed.
    pub fn qasm_header(&self) -> String {
        // header layout from the style seed: plain; CRLF line ends; a classical register as well;
        // a leading comment and a blank line
        let hv = if self.style == 0 { 0 } else { crate::decider::mix(self.style, 0xead) % 6 };
        let nl = if hv == 1 { "\r\n" } else { "\n" };
        let mut s = String::new();
        if hv == 3 {
            s += "// generated\n\n";
        }
        s += &format!("OPENQASM 2.0;{nl}include \"qelib1.inc\";{nl}");
        if self.regs.len() <= 1 {
            s += &format!("qreg q[{}];{nl}", self.n);
        } else {
            for (r, &sz) in self.regs.iter().enumerate() {
                s += &format!("qreg r{}[{}];{nl}", r, sz);
            }
        }
        if hv == 2 {
            s += &format!("creg c[{}];{nl}", self.n.max(1));
        }
        s
    }
    /// name of qubit q; `bare` allows naming a size-1 register without an index
    fn qname_styled(&self, q: usize, bare: bool) -> String {
        if bare && self.regs.len() > 1 {
            let mut off = 0;
            for (r, &sz) in self.regs.iter().enumerate() {
                if q < off + sz {
                    if sz == 1 {
                        return format!("r{}", r);
                    }
                    break;
                }
                off += sz;
            }
        }
        self.qname(q)
    }

    pub fn qasm_statements(&self) -> Vec<String> {
        self.gates
            .iter()
            .enumerate()
            .map(|(i, g)| {
                // per-statement variant, derived from the style seed only (never from a PRNG)
                let v = if self.style == 0 { 0 } else { crate::decider::mix(self.style, i as u64) };
                let mut s = String::from(if v % 7 == 3 && g.k == GK::CX { "CX" } else { g.k.name() });
                if let GK::Rz(n, d) | GK::Rx(n, d) = g.k {
                    s += &format!("({})", phase_expr_styled(n, d, (v >> 8) % 6));
                }
                if let GK::RzMix(a, n, d) | GK::RxMix(a, n, d) = g.k {
                    s += &format!("({})", mixed_expr(a, n, d, (v >> 8) % 6));
                }
                s += if (v >> 16) % 5 == 1 { "   " } else { " " };
                let bare = (v >> 20) % 3 == 1 && g.k.arity() == 1;
                let qs: Vec<String> = g.qs.iter().map(|&q| self.qname_styled(q, bare)).collect();
                s += &qs.join(if (v >> 24) % 4 == 1 { " ,  " } else { ", " });
                s += match (v >> 28) % 12 {
                    1 => " ;\n",
                    2 => "; // a comment\n",
                    3 => ";\n\n",
                    // other line ends and separators: CRLF, a tab, a blank (the next statement follows
                    // on the same line), a comment that contains semicolons. (Not a bare CR: the
                    // openqasm lexer rejects it outside comments - "invalid token" - which is an
                    // error, not a wrong answer.)
                    6 | 7 => ";\r\n",
                    8 => ";\t",
                    9 => "; ",
                    10 => "; // a; b; c\n",
                    _ => ";\n",
                };
                let w = if self.defs == 0 { 1 } else { crate::decider::mix(self.defs, i as u64) };
                if w % 3 == 0 {
                    return self.through_definitions(i, g, w >> 8);
                }
                s
            })
            .collect()
    }
    /// Statement i as a call of a user-defined gate that reaches the real gate through a tower
    /// of nested definitions (all printed right before the call).
    fn through_definitions(&self, i: usize, g: &HGate, w: u64) -> String {
        let depth = if w % 2 == 0 { 1 + (w >> 4) % 3 } else { 1 + (w >> 4) % 24 } as usize;
        let formals = ["a", "b", "c"];
        let ar = g.k.arity();
        let fl = formals[..ar].join(",");
        let param = match g.k {
            GK::Rz(n, d) | GK::Rx(n, d) => Some(phase_expr(n, d)),
            GK::RzMix(a, n, d) | GK::RxMix(a, n, d) => Some(mixed_expr(a, n, d, 0)),
            _ => None,
        };
        let (pf, pu) = if param.is_some() { ("(t)", "(t)") } else { ("", "") };
        let mut s = String::new();
        // level 0 applies the gate itself
        s += &format!("gate u{i}_0{pf} {fl} {{ {}{pu} {fl}; }}\n", g.k.name());
        // every further level calls the one below; an odd number of them reverses the arguments
        let mut reversed = false;
        for l in 1..depth {
            let rev = ar >= 2 && (w >> (12 + l)) & 1 == 1;
            let args = if rev {
                reversed = !reversed;
                let mut f: Vec<&str> = formals[..ar].to_vec();
                f.reverse();
                f.join(",")
            } else {
                fl.clone()
            };
            s += &format!("gate u{i}_{l}{pf} {fl} {{ u{i}_{}{pu} {args}; }}\n", l - 1);
        }
        let mut qs: Vec<String> = g.qs.iter().map(|&q| self.qname(q)).collect();
        if reversed {
            qs.reverse();
        }
        let call_param = param.map(|p| format!("({p})")).unwrap_or_default();
        s += &format!("u{i}_{}{call_param} {};\n", depth - 1, qs.join(", "));
        s
    }

    pub fn to_qasm(&self) -> String {
        let mut s = self.qasm_header();
        for st in self.qasm_statements() {
            s += &st;
        }
        s
    }
}

/// Equivalent spellings of the phase n*pi/d.
fn phase_expr_styled(n: i64, d: i64, variant: u64) -> String {
    match variant {
        1 => {
            // pi*n/d
            if d == 1 {
                format!("pi*{n}")
            } else {
                format!("pi*{n}/{d}")
            }
        }
        2 => {
            // float multiple of pi (exact for power-of-two denominators, 17 digits otherwise)
            format!("{:?}*pi", n as f64 / d as f64)
        }
        3 => phase_expr(n + 2 * d, d), // shifted by +2pi
        4 => phase_expr(n - 2 * d, d), // shifted by -2pi
        5 => {
            // (n/d)*pi with parentheses
            format!("({n}/{d})*pi")
        }
        _ => phase_expr(n, d),
    }
}

/// Spellings of the angle a/1000 + π·n/d (a != 0).
fn mixed_expr(a: i64, n: i64, d: i64, variant: u64) -> String {
    let dec = |a: i64| format!("{}", a as f64 / 1000.0);
    if n == 0 {
        return match variant {
            2 => format!("({})", dec(a)),
            _ => dec(a),
        };
    }
    let pe = phase_expr(n, d);
    let signed = |x: &str| if x.starts_with('-') { x.to_string() } else { format!("+{x}") };
    match variant {
        1 => format!("{pe}{}", signed(&dec(a))),
        2 => format!("({})+({pe})", dec(a)),
        3 => {
            // a ± n/d*pi
            let sg = if n < 0 { '-' } else { '+' };
            if d == 1 {
                format!("{}{sg}{}*pi", dec(a), n.abs())
            } else {
                format!("{}{sg}{}/{}*pi", dec(a), n.abs(), d)
            }
        }
        4 => format!("{pe} {} ", signed(&dec(a))),
        _ => format!("{}{}", dec(a), signed(&pe)),
    }
}

fn phase_expr(n: i64, d: i64) -> String {
    if n == 0 {
        return "0".into();
    }
    let num = match n {
        1 => "pi".to_string(),
        -1 => "-pi".to_string(),
        n => format!("{n}*pi"),
    };
    if d == 1 {
        num
    } else {
        format!("{num}/{d}")
    }
}

/// Amplitude arithmetic the simulator needs.
pub trait Amp: Clone {
    fn zero() -> Self;
    fn one() -> Self;
    fn add(&self, o: &Self) -> Self;
    fn sub(&self, o: &Self) -> Self;
    fn neg(&self) -> Self;
    /// multiply by e^{iπ n/d}; `None` when not representable
    fn mul_phase(&self, n: i64, d: i64) -> Option<Self>;
    fn mul(&self, o: &Self) -> Self;
    fn conj(&self) -> Self;
    /// multiply by 1/√2
    fn inv_sqrt2(&self) -> Self;
    fn is_zero_exact(&self) -> bool;
    fn to_c64(&self) -> (f64, f64);
}

impl Amp for Zw {
    fn zero() -> Self {
        Zw::zero()
    }
    fn one() -> Self {
        Zw::one()
    }
    fn add(&self, o: &Self) -> Self {
        Zw::add(self, o)
    }
    fn sub(&self, o: &Self) -> Self {
        Zw::sub(self, o)
    }
    fn neg(&self) -> Self {
        Zw::neg(self)
    }
    fn mul_phase(&self, n: i64, d: i64) -> Option<Self> {
        if d <= 0 || 4 % d != 0 {
            return None;
        }
        Some(self.mul_omega_pow(n * (4 / d)))
    }
    fn mul(&self, o: &Self) -> Self {
        Zw::mul(self, o)
    }
    fn conj(&self) -> Self {
        Zw::conj(self)
    }
    fn inv_sqrt2(&self) -> Self {
        self.mul_sqrt2_pow(-1)
    }
    fn is_zero_exact(&self) -> bool {
        self.is_zero()
    }
    fn to_c64(&self) -> (f64, f64) {
        Zw::to_c64(self)
    }
}

#[derive(Clone, Copy, Debug, PartialEq)]
pub struct C64(pub f64, pub f64);

impl Amp for C64 {
    fn zero() -> Self {
        C64(0.0, 0.0)
    }
    fn one() -> Self {
        C64(1.0, 0.0)
    }
    fn add(&self, o: &Self) -> Self {
        C64(self.0 + o.0, self.1 + o.1)
    }
    fn sub(&self, o: &Self) -> Self {
        C64(self.0 - o.0, self.1 - o.1)
    }
    fn neg(&self) -> Self {
        C64(-self.0, -self.1)
    }
    fn mul_phase(&self, n: i64, d: i64) -> Option<Self> {
        let a = std::f64::consts::PI * (n as f64) / (d as f64);
        let (c, s) = (a.cos(), a.sin());
        Some(C64(self.0 * c - self.1 * s, self.0 * s + self.1 * c))
    }
    fn mul(&self, o: &Self) -> Self {
        C64(self.0 * o.0 - self.1 * o.1, self.0 * o.1 + self.1 * o.0)
    }
    fn conj(&self) -> Self {
        C64(self.0, -self.1)
    }
    fn inv_sqrt2(&self) -> Self {
        let r = std::f64::consts::FRAC_1_SQRT_2;
        C64(self.0 * r, self.1 * r)
    }
    fn is_zero_exact(&self) -> bool {
        self.0 == 0.0 && self.1 == 0.0
    }
    fn to_c64(&self) -> (f64, f64) {
        (self.0, self.1)
    }
}

fn apply_h<A: Amp>(st: &mut [A], q: usize) {
    let m = 1usize << q;
    for i in 0..st.len() {
        if i & m == 0 {
            let a = st[i].clone();
            let b = st[i | m].clone();
            st[i] = a.add(&b).inv_sqrt2();
            st[i | m] = a.sub(&b).inv_sqrt2();
        }
    }
}

fn apply_zphase<A: Amp>(st: &mut [A], q: usize, n: i64, d: i64) -> Option<()> {
    let m = 1usize << q;
    for i in 0..st.len() {
        if i & m != 0 {
            st[i] = st[i].mul_phase(n, d)?;
        }
    }
    Some(())
}

/// Apply one gate to a state vector. `None` if the amplitude type cannot represent it.
pub fn apply_gate<A: Amp>(st: &mut Vec<A>, g: &HGate) -> Option<()> {
    let q = &g.qs;
    match g.k {
        GK::H => apply_h(st, q[0]),
        GK::Rz(n, d) => apply_zphase(st, q[0], n, d)?,
        GK::RzMix(..) => {
            let (n, d) = g.k.phase()?;
            apply_zphase(st, q[0], n, d)?
        }
        GK::RxMix(..) => {
            let (n, d) = g.k.phase()?;
            apply_h(st, q[0]);
            apply_zphase(st, q[0], n, d)?;
            apply_h(st, q[0]);
        }
        GK::Z => apply_zphase(st, q[0], 1, 1)?,
        GK::S => apply_zphase(st, q[0], 1, 2)?,
        GK::Sdg => apply_zphase(st, q[0], -1, 2)?,
        GK::T => apply_zphase(st, q[0], 1, 4)?,
        GK::Tdg => apply_zphase(st, q[0], -1, 4)?,
        GK::Rx(n, d) => {
            apply_h(st, q[0]);
            apply_zphase(st, q[0], n, d)?;
            apply_h(st, q[0]);
        }
        GK::X => {
            let m = 1usize << q[0];
            for i in 0..st.len() {
                if i & m == 0 {
                    st.swap(i, i | m);
                }
            }
        }
        GK::CX => {
            let (c, t) = (1usize << q[0], 1usize << q[1]);
            for i in 0..st.len() {
                if i & c != 0 && i & t == 0 {
                    st.swap(i, i | t);
                }
            }
        }
        GK::CZ => {
            let (a, b) = (1usize << q[0], 1usize << q[1]);
            for i in 0..st.len() {
                if i & a != 0 && i & b != 0 {
                    st[i] = st[i].neg();
                }
            }
        }
        GK::CCZ => {
            let m = (1usize << q[0]) | (1usize << q[1]) | (1usize << q[2]);
            for i in 0..st.len() {
                if i & m == m {
                    st[i] = st[i].neg();
                }
            }
        }
        GK::CCX => {
            let c = (1usize << q[0]) | (1usize << q[1]);
            let t = 1usize << q[2];
            for i in 0..st.len() {
                if i & c == c && i & t == 0 {
                    st.swap(i, i | t);
                }
            }
        }
        GK::Swap => {
            let (a, b) = (1usize << q[0], 1usize << q[1]);
            for i in 0..st.len() {
                if i & a != 0 && i & b == 0 {
                    st.swap(i, (i ^ a) | b);
                }
            }
        }
        GK::XCX => {
            // (H⊗H) CZ (H⊗H)
            apply_h(st, q[0]);
            apply_h(st, q[1]);
            let (a, b) = (1usize << q[0], 1usize << q[1]);
            for i in 0..st.len() {
                if i & a != 0 && i & b != 0 {
                    st[i] = st[i].neg();
                }
            }
            apply_h(st, q[0]);
            apply_h(st, q[1]);
        }
    }
    Some(())
}

/// C|basis⟩
pub fn run_on_basis<A: Amp>(c: &HCirc, basis: usize) -> Option<Vec<A>> {
    let mut st: Vec<A> = vec![A::zero(); 1usize << c.n];
    st[basis] = A::one();
    for g in &c.gates {
        apply_gate(&mut st, g)?;
    }
    Some(st)
}

/// Full unitary, column j = C|j⟩
pub fn unitary<A: Amp>(c: &HCirc) -> Option<Vec<Vec<A>>> {
    (0..(1usize << c.n)).map(|j| run_on_basis::<A>(c, j)).collect()
}

/// U ≃ V up to a non-zero scalar.  Exact when `A` is exact (tol ignored for
/// exact zero tests), else with tolerance `tol` on cross products.
pub fn proj_equal<A: Amp>(u: &[Vec<A>], v: &[Vec<A>], tol: f64, exact: bool) -> bool {
    if u.len() != v.len() {
        return false;
    }
    // pivot: largest entry of u
    let mut best = (0usize, 0usize, -1.0f64);
    for (j, col) in u.iter().enumerate() {
        for (i, a) in col.iter().enumerate() {
            let (re, im) = a.to_c64();
            let m = re * re + im * im;
            if m > best.2 {
                best = (j, i, m);
            }
        }
    }
    let (pj, pi, pm) = best;
    if pm <= 0.0 {
        return false;
    }
    let up = &u[pj][pi];
    let vp = &v[pj][pi];
    if exact {
        if vp.is_zero_exact() {
            return false;
        }
    } else {
        let (re, im) = vp.to_c64();
        if (re * re + im * im).sqrt() < tol {
            return false;
        }
    }
    for j in 0..u.len() {
        if u[j].len() != v[j].len() {
            return false;
        }
        for i in 0..u[j].len() {
            // u[j][i] * vp == v[j][i] * up
            let l = u[j][i].mul(vp);
            let r = v[j][i].mul(up);
            let d = l.sub(&r);
            if exact {
                if !d.is_zero_exact() {
                    return false;
                }
            } else {
                let (re, im) = d.to_c64();
                if (re * re + im * im).sqrt() > tol {
                    return false;
                }
            }
        }
    }
    true
}

/// Bit string (char i = qubit i) of a basis index.
pub fn bits_of(idx: usize, n: usize) -> String {
    (0..n)
        .map(|i| if (idx >> i) & 1 == 1 { '1' } else { '0' })
        .collect()
}
pub fn idx_of(bits: &[bool]) -> usize {
    bits.iter()
        .enumerate()
        .map(|(i, &b)| if b { 1usize << i } else { 0 })
        .sum()
}

/// Born probabilities |amp|² as f64
pub fn probs<A: Amp>(st: &[A]) -> Vec<f64> {
    st.iter()
        .map(|a| {
            let (re, im) = a.to_c64();
            re * re + im * im
        })
        .collect()
}

/// P(prefix) where prefix fixes qubits 0..prefix.len()
pub fn prefix_prob(p: &[f64], prefix: &[bool]) -> f64 {
    let mask: usize = (1usize << prefix.len()) - 1;
    let want = idx_of(prefix);
    p.iter()
        .enumerate()
        .filter(|(i, _)| i & mask == want)
        .map(|(_, x)| *x)
        .sum()
}

#[derive(Clone, Copy, Debug, PartialEq, Eq, Serialize, Deserialize)]
pub enum Pauli {
    I,
    X,
    Y,
    Z,
}

/// ⟨ψ|P|ψ⟩ in f64 (real part, imaginary part)
pub fn pauli_expectation<A: Amp>(st: &[A], ps: &[Pauli]) -> (f64, f64) {
    // P|ψ⟩ computed in f64
    let v: Vec<(f64, f64)> = st.iter().map(|a| a.to_c64()).collect();
    let mut w = v.clone();
    for (q, p) in ps.iter().enumerate() {
        let m = 1usize << q;
        match p {
            Pauli::I => {}
            Pauli::X => {
                for i in 0..w.len() {
                    if i & m == 0 {
                        w.swap(i, i | m);
                    }
                }
            }
            Pauli::Z => {
                for (i, a) in w.iter_mut().enumerate() {
                    if i & m != 0 {
                        *a = (-a.0, -a.1);
                    }
                }
            }
            Pauli::Y => {
                // Y|0> = i|1>, Y|1> = -i|0>
                for i in 0..w.len() {
                    if i & m == 0 {
                        let a0 = w[i];
                        let a1 = w[i | m];
                        // new[0] = -i * a1 ; new[1] = i * a0
                        w[i] = (a1.1, -a1.0);
                        w[i | m] = (-a0.1, a0.0);
                    }
                }
            }
        }
    }
    let (mut re, mut im) = (0.0, 0.0);
    for i in 0..v.len() {
        // conj(v) * w
        re += v[i].0 * w[i].0 + v[i].1 * w[i].1;
        im += v[i].0 * w[i].1 - v[i].1 * w[i].0;
    }
    (re, im)
}

// ---------------------------------------------------------------------------
// A small QASM parser for the gate kinds the harness prints and the extractor
// may emit.  Phases are parsed as f64 half-turns and snapped to a rational
// with denominator ≤ 2^20 when within 1e-12.
// ---------------------------------------------------------------------------

#[derive(Debug, Clone, PartialEq)]
pub enum PGate {
    K(GK, Vec<usize>),
    /// phase gate with an f64 phase in half-turns: (is_x, phase, qubit)
    F(bool, f64, usize),
}

#[derive(Debug, Clone, PartialEq)]
pub struct PCirc {
    pub n: usize,
    pub gates: Vec<PGate>,
}

pub fn parse_qasm(src: &str) -> Result<PCirc, String> {
    let mut regs: Vec<(String, usize, usize)> = vec![]; // name, offset, size
    let mut n = 0usize;
    let mut gates = vec![];
    // strip comments
    let mut clean = String::new();
    for line in src.lines() {
        let l = match line.find("//") {
            Some(p) => &line[..p],
            None => line,
        };
        clean += l;
        clean.push('\n');
    }
    for stmt in clean.split(';') {
        let s = stmt.trim();
        if s.is_empty() {
            continue;
        }
        if s.starts_with("OPENQASM") || s.starts_with("include") {
            continue;
        }
        if let Some(rest) = s.strip_prefix("qreg") {
            let rest = rest.trim();
            let lb = rest.find('[').ok_or("bad qreg")?;
            let rb = rest.find(']').ok_or("bad qreg")?;
            let name = rest[..lb].trim().to_string();
            let sz: usize = rest[lb + 1..rb].trim().parse().map_err(|_| "bad qreg size")?;
            regs.push((name, n, sz));
            n += sz;
            continue;
        }
        if s.starts_with("creg") {
            continue;
        }
        // gate name [ (param) ] args
        let (head, args) = match s.find(|c: char| c.is_whitespace() || c == '(') {
            Some(p) => (&s[..p], s[p..].trim()),
            None => return Err(format!("bad statement '{s}'")),
        };
        let (param, args) = if let Some(stripped) = args.strip_prefix('(') {
            // find matching paren
            let mut depth = 1;
            let mut end = None;
            for (i, c) in stripped.char_indices() {
                if c == '(' {
                    depth += 1;
                } else if c == ')' {
                    depth -= 1;
                    if depth == 0 {
                        end = Some(i);
                        break;
                    }
                }
            }
            let e = end.ok_or("unbalanced parens")?;
            (Some(&stripped[..e]), stripped[e + 1..].trim())
        } else {
            (None, args)
        };
        let mut qs = vec![];
        for a in args.split(',') {
            let a = a.trim();
            let lb = a.find('[').ok_or_else(|| format!("bad arg '{a}'"))?;
            let rb = a.find(']').ok_or_else(|| format!("bad arg '{a}'"))?;
            let name = a[..lb].trim();
            let i: usize = a[lb + 1..rb].trim().parse().map_err(|_| "bad index")?;
            let (_, off, sz) = regs
                .iter()
                .find(|(nm, _, _)| nm == name)
                .ok_or_else(|| format!("unknown register '{name}'"))?;
            if i >= *sz {
                return Err("index out of range".into());
            }
            qs.push(off + i);
        }
        let k = match head {
            "rz" | "rx" => {
                let p = param.ok_or("missing parameter")?;
                let ht = eval_phase_expr(p)?;
                gates.push(PGate::F(head == "rx", ht, qs[0]));
                continue;
            }
            "x" => GK::X,
            "z" => GK::Z,
            "s" => GK::S,
            "t" => GK::T,
            "sdg" => GK::Sdg,
            "tdg" => GK::Tdg,
            "h" => GK::H,
            "cx" | "CX" => GK::CX,
            "cz" => GK::CZ,
            "ccx" => GK::CCX,
            "ccz" => GK::CCZ,
            "swap" => GK::Swap,
            "xcx" => GK::XCX,
            other => return Err(format!("unknown gate '{other}'")),
        };
        if qs.len() != k.arity() {
            return Err(format!("wrong arity for {head}"));
        }
        gates.push(PGate::K(k, qs));
    }
    Ok(PCirc { n, gates })
}

/// Evaluate a parameter expression into half-turns (i.e. divided by π).
/// Grammar: sum of products of numbers and `pi`, with unary minus and parens.
fn eval_phase_expr(s: &str) -> Result<f64, String> {
    struct P<'a> {
        t: Vec<&'a str>,
        i: usize,
    }
    // tokenise
    let mut toks: Vec<String> = vec![];
    let cs: Vec<char> = s.chars().collect();
    let mut i = 0;
    while i < cs.len() {
        let c = cs[i];
        if c.is_whitespace() {
            i += 1;
        } else if c.is_ascii_digit() || c == '.' {
            let st = i;
            while i < cs.len()
                && (cs[i].is_ascii_digit()
                    || cs[i] == '.'
                    || cs[i] == 'e'
                    || cs[i] == 'E'
                    || ((cs[i] == '-' || cs[i] == '+') && (cs[i - 1] == 'e' || cs[i - 1] == 'E')))
            {
                i += 1;
            }
            toks.push(cs[st..i].iter().collect());
        } else if c.is_alphabetic() {
            let st = i;
            while i < cs.len() && cs[i].is_alphanumeric() {
                i += 1;
            }
            toks.push(cs[st..i].iter().collect());
        } else {
            toks.push(c.to_string());
            i += 1;
        }
    }
    let tr: Vec<&str> = toks.iter().map(|x| x.as_str()).collect();
    let mut p = P { t: tr, i: 0 };
    impl<'a> P<'a> {
        fn peek(&self) -> Option<&'a str> {
            self.t.get(self.i).copied()
        }
        fn next(&mut self) -> Option<&'a str> {
            let r = self.peek();
            self.i += 1;
            r
        }
        fn expr(&mut self) -> Result<f64, String> {
            let mut v = self.term()?;
            while let Some(op) = self.peek() {
                if op == "+" {
                    self.next();
                    v += self.term()?;
                } else if op == "-" {
                    self.next();
                    v -= self.term()?;
                } else {
                    break;
                }
            }
            Ok(v)
        }
        fn term(&mut self) -> Result<f64, String> {
            let mut v = self.factor()?;
            while let Some(op) = self.peek() {
                if op == "*" {
                    self.next();
                    v *= self.factor()?;
                } else if op == "/" {
                    self.next();
                    v /= self.factor()?;
                } else {
                    break;
                }
            }
            Ok(v)
        }
        fn factor(&mut self) -> Result<f64, String> {
            match self.next() {
                Some("-") => Ok(-self.factor()?),
                Some("+") => self.factor(),
                Some("(") => {
                    let v = self.expr()?;
                    if self.next() != Some(")") {
                        return Err("expected )".into());
                    }
                    Ok(v)
                }
                Some("pi") => Ok(std::f64::consts::PI),
                Some(t) => t.parse::<f64>().map_err(|_| format!("bad token '{t}'")),
                None => Err("unexpected end".into()),
            }
        }
    }
    let v = p.expr()?;
    if p.i != p.t.len() {
        return Err("trailing tokens".into());
    }
    Ok(v / std::f64::consts::PI)
}

impl PCirc {
    /// Unitary in f64.
    pub fn unitary(&self) -> Vec<Vec<C64>> {
        (0..(1usize << self.n))
            .map(|j| {
                let mut st = vec![C64(0.0, 0.0); 1usize << self.n];
                st[j] = C64(1.0, 0.0);
                for g in &self.gates {
                    match g {
                        PGate::K(k, qs) => {
                            apply_gate(
                                &mut st,
                                &HGate {
                                    k: *k,
                                    qs: qs.clone(),
                                },
                            )
                            .unwrap();
                        }
                        PGate::F(is_x, ht, q) => {
                            if *is_x {
                                apply_h(&mut st, *q);
                            }
                            let a = std::f64::consts::PI * ht;
                            let (c, s) = (a.cos(), a.sin());
                            let m = 1usize << q;
                            for (i, x) in st.iter_mut().enumerate() {
                                if i & m != 0 {
                                    *x = C64(x.0 * c - x.1 * s, x.0 * s + x.1 * c);
                                }
                            }
                            if *is_x {
                                apply_h(&mut st, *q);
                            }
                        }
                    }
                }
                st
            })
            .collect()
    }
    /// Apply the parsed program to a state vector (f64).
    pub fn apply(&self, st: &[C64]) -> Vec<C64> {
        let mut st = st.to_vec();
        for g in &self.gates {
            match g {
                PGate::K(k, qs) => {
                    apply_gate(&mut st, &HGate { k: *k, qs: qs.clone() }).unwrap();
                }
                PGate::F(is_x, ht, q) => {
                    if *is_x {
                        apply_h(&mut st, *q);
                    }
                    let a = std::f64::consts::PI * ht;
                    let (c, s) = (a.cos(), a.sin());
                    let m = 1usize << q;
                    for (i, x) in st.iter_mut().enumerate() {
                        if i & m != 0 {
                            *x = C64(x.0 * c - x.1 * s, x.0 * s + x.1 * c);
                        }
                    }
                    if *is_x {
                        apply_h(&mut st, *q);
                    }
                }
            }
        }
        st
    }

    pub fn gate_names(&self) -> Vec<&'static str> {
        self.gates
            .iter()
            .map(|g| match g {
                PGate::K(k, _) => k.name(),
                PGate::F(true, _, _) => "rx",
                PGate::F(false, _, _) => "rz",
            })
            .collect()
    }
}

pub fn self_test() -> Result<(), String> {
    // HH = I, exact
    let mut c = HCirc::new(2);
    c.gates.push(HGate { k: GK::H, qs: vec![0] });
    c.gates.push(HGate { k: GK::H, qs: vec![0] });
    let u = unitary::<Zw>(&c).ok_or("unitary")?;
    let id = unitary::<Zw>(&HCirc::new(2)).ok_or("unitary")?;
    if u != id {
        return Err("HH != I".into());
    }
    // CX = H_t CZ H_t
    let mut a = HCirc::new(2);
    a.gates.push(HGate { k: GK::CX, qs: vec![0, 1] });
    let mut b = HCirc::new(2);
    b.gates.push(HGate { k: GK::H, qs: vec![1] });
    b.gates.push(HGate { k: GK::CZ, qs: vec![0, 1] });
    b.gates.push(HGate { k: GK::H, qs: vec![1] });
    if unitary::<Zw>(&a) != unitary::<Zw>(&b) {
        return Err("CX != H CZ H".into());
    }
    // swap = 3 cnots
    let mut a = HCirc::new(3);
    a.gates.push(HGate { k: GK::Swap, qs: vec![0, 2] });
    let mut b = HCirc::new(3);
    for (x, y) in [(0, 2), (2, 0), (0, 2)] {
        b.gates.push(HGate { k: GK::CX, qs: vec![x, y] });
    }
    if unitary::<Zw>(&a) != unitary::<Zw>(&b) {
        return Err("swap != 3 cx".into());
    }
    // T^2 = S, TT† = I, exact vs float agreement
    let mut a = HCirc::new(1);
    a.gates.push(HGate { k: GK::T, qs: vec![0] });
    a.gates.push(HGate { k: GK::T, qs: vec![0] });
    let mut b = HCirc::new(1);
    b.gates.push(HGate { k: GK::S, qs: vec![0] });
    if unitary::<Zw>(&a) != unitary::<Zw>(&b) {
        return Err("TT != S".into());
    }
    // ccx = H ccz H on target
    let mut a = HCirc::new(3);
    a.gates.push(HGate { k: GK::CCX, qs: vec![2, 0, 1] });
    let mut b = HCirc::new(3);
    b.gates.push(HGate { k: GK::H, qs: vec![1] });
    b.gates.push(HGate { k: GK::CCZ, qs: vec![0, 1, 2] });
    b.gates.push(HGate { k: GK::H, qs: vec![1] });
    if unitary::<Zw>(&a) != unitary::<Zw>(&b) {
        return Err("ccx != H ccz H".into());
    }
    // float vs exact and parser round trip on a mixed circuit
    let mut c = HCirc::new(3);
    c.gates.push(HGate { k: GK::H, qs: vec![0] });
    c.gates.push(HGate { k: GK::Rz(3, 4), qs: vec![0] });
    c.gates.push(HGate { k: GK::XCX, qs: vec![0, 2] });
    c.gates.push(HGate { k: GK::Rx(-1, 4), qs: vec![1] });
    c.gates.push(HGate { k: GK::CCX, qs: vec![0, 1, 2] });
    c.gates.push(HGate { k: GK::Sdg, qs: vec![2] });
    let ue = unitary::<Zw>(&c).ok_or("unitary")?;
    let uf = unitary::<C64>(&c).ok_or("unitary")?;
    for j in 0..8 {
        for i in 0..8 {
            let (a, b) = ue[j][i].to_c64();
            if (a - uf[j][i].0).abs() > 1e-12 || (b - uf[j][i].1).abs() > 1e-12 {
                return Err("exact vs float simulator".into());
            }
        }
    }
    let p = parse_qasm(&c.to_qasm())?;
    if !proj_equal(&p.unitary(), &uf, 1e-10, false) {
        return Err("parser round trip".into());
    }
    // Y expectation on S H |0> = |+i>  is +1
    let mut c = HCirc::new(1);
    c.gates.push(HGate { k: GK::H, qs: vec![0] });
    c.gates.push(HGate { k: GK::S, qs: vec![0] });
    let st = run_on_basis::<Zw>(&c, 0).ok_or("run")?;
    let (re, im) = pauli_expectation(&st, &[Pauli::Y]);
    if (re - 1.0).abs() > 1e-12 || im.abs() > 1e-12 {
        return Err(format!("<Y> on |+i> = {re}+{im}i"));
    }
    let ev = eval_phase_expr("-3*pi/8")?;
    if (ev + 0.375).abs() > 1e-15 {
        return Err("phase expr".into());
    }
    let ev = eval_phase_expr("0.25*pi")?;
    if (ev - 0.25).abs() > 1e-15 {
        return Err("phase expr 2".into());
    }
    Ok(())
}
