//! Workload generators: diagrams (explicit, serialisable specs) and circuits.

use crate::decider::Decider;
use crate::gatesim::{HCirc, HGate, GK};
use crate::ring::Zw;
use crate::zxeval::{Dg, Sc, DV, VT};
use num::Rational64;
use quizx::graph::{EType, GraphLike, VType};
use quizx::scalar::{FromPhase, Scalar4, Sqrt2};
use serde::{Deserialize, Serialize};

/// 0 = boundary, 1 = Z, 2 = X, 3 = H-box
pub type Ty = u8;

#[derive(Clone, Debug, Serialize, Deserialize, PartialEq)]
pub struct GSpec {
    /// (type, phase numerator, phase denominator, qubit coord, row coord); vertex id = index
    pub verts: Vec<(Ty, i64, i64, f64, f64)>,
    /// (u, v, hadamard)
    pub edges: Vec<(usize, usize, bool)>,
    pub inputs: Vec<usize>,
    pub outputs: Vec<usize>,
    /// scalar = √2^p · ω^k · Π_j (1 + e^{iπ a_j/b_j})
    pub sqrt2_pow: i32,
    pub omega_pow: i64,
    pub one_plus: Vec<(i64, i64)>,
    /// an extra exact factor a + bω + cω² + dω³ (default 1): scalars that are exact but not of
    /// the form √2^p e^{ikπ/4}, e.g. 3 or 1+2i
    #[serde(default = "one4")]
    pub int_factor: [i64; 4],
    /// holes[i] = number of throw-away vertices created (with a phase and an edge) right before
    /// vertex i and removed again once the graph is complete, so that the vertex numbering of
    /// the built graph has gaps.  Empty = none.
    #[serde(default)]
    pub holes: Vec<u8>,
}

fn one4() -> [i64; 4] {
    [1, 0, 0, 0]
}

impl GSpec {
    pub fn empty() -> GSpec {
        GSpec {
            verts: vec![],
            edges: vec![],
            inputs: vec![],
            outputs: vec![],
            sqrt2_pow: 0,
            omega_pow: 0,
            one_plus: vec![],
            int_factor: [1, 0, 0, 0],
            holes: vec![],
        }
    }
    pub fn add(&mut self, ty: Ty, num: i64, den: i64) -> usize {
        self.verts.push((ty, num, den, 0.0, 0.0));
        self.verts.len() - 1
    }
    pub fn z(&mut self, k4: i64) -> usize {
        let (n, d) = reduce(k4.rem_euclid(8), 4);
        self.add(1, n, d)
    }
    pub fn has_edge(&self, a: usize, b: usize) -> bool {
        self.edges
            .iter()
            .any(|&(u, v, _)| (u == a && v == b) || (u == b && v == a))
    }
    pub fn h(&mut self, a: usize, b: usize) {
        if a != b && !self.has_edge(a, b) {
            self.edges.push((a.min(b), a.max(b), true));
        }
    }
    pub fn n(&mut self, a: usize, b: usize) {
        if a != b && !self.has_edge(a, b) {
            self.edges.push((a.min(b), a.max(b), false));
        }
    }
    pub fn tcount(&self) -> usize {
        self.verts
            .iter()
            .filter(|v| (v.0 == 1 || v.0 == 2) && v.2 != 1 && v.2 != 2)
            .count()
    }
    pub fn degree(&self, v: usize) -> usize {
        self.edges.iter().filter(|e| e.0 == v || e.1 == v).count()
    }
    pub fn neighbours(&self, v: usize) -> Vec<usize> {
        self.edges
            .iter()
            .filter_map(|&(a, b, _)| {
                if a == v {
                    Some(b)
                } else if b == v {
                    Some(a)
                } else {
                    None
                }
            })
            .collect()
    }

    /// Disjoint union (appends `o`, shifting its ids).
    pub fn union(&mut self, o: &GSpec) {
        let off = self.verts.len();
        if !self.holes.is_empty() || !o.holes.is_empty() {
            self.holes.resize(off, 0);
            self.holes.extend(o.holes.iter().cloned());
            self.holes.resize(off + o.verts.len(), 0);
        }
        self.verts.extend(o.verts.iter().cloned());
        self.edges
            .extend(o.edges.iter().map(|&(a, b, h)| (a + off, b + off, h)));
        self.inputs.extend(o.inputs.iter().map(|x| x + off));
        self.outputs.extend(o.outputs.iter().map(|x| x + off));
        self.sqrt2_pow += o.sqrt2_pow;
        self.omega_pow += o.omega_pow;
        self.one_plus.extend(o.one_plus.iter().cloned());
        if o.int_factor != [1, 0, 0, 0] {
            assert!(self.int_factor == [1, 0, 0, 0], "union of two specs with integer factors");
            self.int_factor = o.int_factor;
        }
    }

    /// Remove vertex `v` (and its edges), renumbering the rest.
    pub fn without_vertex(&self, v: usize) -> GSpec {
        let map = |x: usize| if x > v { x - 1 } else { x };
        let mut g = self.clone();
        g.verts.remove(v);
        if v < g.holes.len() {
            g.holes.remove(v);
        }
        g.edges = self
            .edges
            .iter()
            .filter(|e| e.0 != v && e.1 != v)
            .map(|&(a, b, h)| (map(a), map(b), h))
            .collect();
        g.inputs = self.inputs.iter().filter(|&&x| x != v).map(|&x| map(x)).collect();
        g.outputs = self.outputs.iter().filter(|&&x| x != v).map(|&x| map(x)).collect();
        g
    }

    fn vtype(t: Ty) -> VType {
        match t {
            0 => VType::B,
            1 => VType::Z,
            2 => VType::X,
            _ => VType::H,
        }
    }

    /// The exact scalar of the spec, when all its factors are in Z[ω]/2^k.
    pub fn scalar_exact(&self) -> Option<Zw> {
        let mut s = Zw::sqrt2_pow(self.sqrt2_pow as i64)
            .mul_omega_pow(self.omega_pow)
            .mul(&Zw::from_ints(self.int_factor, 0));
        for &(a, b) in &self.one_plus {
            if b <= 0 || 4 % b != 0 {
                return None;
            }
            s = s.mul(&Zw::one().add(&Zw::omega_pow(a * (4 / b))));
        }
        Some(s)
    }

    pub fn scalar_c64(&self) -> (f64, f64) {
        let m = std::f64::consts::SQRT_2.powi(self.sqrt2_pow);
        let a = std::f64::consts::PI * (self.omega_pow as f64) / 4.0;
        let (mut re, mut im) = (m * a.cos(), m * a.sin());
        {
            let (fr, fi) = Zw::from_ints(self.int_factor, 0).to_c64();
            let (r2, i2) = (re * fr - im * fi, re * fi + im * fr);
            re = r2;
            im = i2;
        }
        for &(p, q) in &self.one_plus {
            let t = std::f64::consts::PI * (p as f64) / (q as f64);
            let (fr, fi) = (1.0 + t.cos(), t.sin());
            let (r2, i2) = (re * fr - im * fi, re * fi + im * fr);
            re = r2;
            im = i2;
        }
        (re, im)
    }

    /// The vertex id that `build` gives to vertex i of the spec (both backends number vertices
    /// consecutively; the throw-away vertices of `holes` take numbers too).
    pub fn built_id(&self, i: usize) -> usize {
        i + self.holes.iter().take(i + 1).map(|&h| h as usize).sum::<usize>()
    }

    /// Build the quizx graph through its public API.
    pub fn build<G: GraphLike>(&self) -> G {
        let mut g = G::new();
        let mut ids = vec![];
        let mut dummies = vec![];
        for (i, &(t, n, d, q, r)) in self.verts.iter().enumerate() {
            for _ in 0..self.holes.get(i).copied().unwrap_or(0) {
                let x = g.add_vertex_with_phase(VType::Z, Rational64::new(1, 4));
                if let Some(&prev) = ids.last() {
                    g.add_edge_with_type(x, prev, EType::H);
                }
                dummies.push(x);
            }
            let v = g.add_vertex_with_phase(GSpec::vtype(t), Rational64::new(n, d));
            g.set_qubit(v, q);
            g.set_row(v, r);
            ids.push(v);
        }
        for &(a, b, h) in &self.edges {
            g.add_edge_with_type(ids[a], ids[b], if h { EType::H } else { EType::N });
        }
        for x in dummies {
            g.remove_vertex(x);
        }
        for (i, &v) in ids.iter().enumerate() {
            assert_eq!(v, self.built_id(i), "vertex numbering of the backend is not consecutive");
        }
        g.set_inputs(self.inputs.iter().map(|&i| ids[i]).collect());
        g.set_outputs(self.outputs.iter().map(|&i| ids[i]).collect());
        let mut s = Scalar4::sqrt2_pow(self.sqrt2_pow)
            * Scalar4::from_phase(Rational64::new(self.omega_pow.rem_euclid(8), 4));
        for &(a, b) in &self.one_plus {
            s *= Scalar4::one_plus_phase(Rational64::new(a, b));
        }
        if self.int_factor != [1, 0, 0, 0] {
            s *= Scalar4::new(self.int_factor, 0);
        }
        *g.scalar_mut() = s;
        g
    }

    /// The harness's own view of the diagram (independent of quizx's graph code).
    pub fn to_dg(&self) -> Dg {
        let verts = self
            .verts
            .iter()
            .enumerate()
            .map(|(i, &(t, n, d, q, r))| DV {
                id: i,
                ty: match t {
                    0 => VT::B,
                    1 => VT::Z,
                    2 => VT::X,
                    3 => VT::Other(0),
                    k => VT::Other(k),
                },
                num: n,
                den: d,
                qubit: q,
                row: r,
            })
            .collect();
        let scalar = match self.scalar_exact() {
            Some(z) => Sc::Exact(z),
            None => {
                let (a, b) = self.scalar_c64();
                Sc::Float(a, b)
            }
        };
        Dg {
            verts,
            edges: self.edges.clone(),
            inputs: self.inputs.clone(),
            outputs: self.outputs.clone(),
            scalar,
            scalar_dyadic: None,
        }
    }
}

pub fn reduce(n: i64, d: i64) -> (i64, i64) {
    fn gcd(a: i64, b: i64) -> i64 {
        if b == 0 {
            a.abs()
        } else {
            gcd(b, a % b)
        }
    }
    if n == 0 {
        return (0, 1);
    }
    let g = gcd(n, d);
    (n / g, d / g)
}

// ------------------------------------------------------------------------------------------
// closed graph-like Clifford+T families (Z spiders, Hadamard edges, phases k/4)
// ------------------------------------------------------------------------------------------

fn t_phase(d: &mut Decider) -> i64 {
    *d.pick("tphase", &[1, 3, 5, 7])
}
fn cliff_phase(d: &mut Decider) -> i64 {
    *d.pick("cphase", &[0, 2, 4, 6])
}
fn pauli_phase(d: &mut Decider) -> i64 {
    *d.pick("pphase", &[0, 4])
}

/// Erdős–Rényi graph-like diagram
pub fn fam_er(d: &mut Decider, nmax: usize, tmax: usize) -> GSpec {
    let n = 1 + d.choose("er.n", nmax);
    let p = d.range("er.p", 10, 60) as usize;
    let tprob = d.range("er.t", 20, 100) as usize;
    let mut g = GSpec::empty();
    let mut t = 0;
    for _ in 0..n {
        if t < tmax && d.choose("er.ist", 100) < tprob {
            let ph = t_phase(d);
            g.z(ph);
            t += 1;
        } else {
            let ph = cliff_phase(d);
            g.z(ph);
        }
    }
    for a in 0..n {
        for b in (a + 1)..n {
            if d.choose("er.e", 100) < p {
                g.h(a, b);
            }
        }
    }
    g
}

/// A Pauli hub with 3..6 T legs, extra edges among the legs and to a host graph.
pub fn fam_cat(d: &mut Decider, tmax: usize) -> GSpec {
    let legs = (3 + d.choose("cat.legs", 4)).min(tmax.max(3));
    let mut g = GSpec::empty();
    let hub_phase = pauli_phase(d);
    let hub = g.z(hub_phase);
    let mut ls = vec![];
    for _ in 0..legs {
        let ph = t_phase(d);
        let l = g.z(ph);
        g.h(hub, l);
        ls.push(l);
    }
    // extra edges among legs
    let pe = d.choose("cat.pe", 60);
    for i in 0..ls.len() {
        for j in (i + 1)..ls.len() {
            if d.choose("cat.e", 100) < pe {
                g.h(ls[i], ls[j]);
            }
        }
    }
    // host vertices attached to legs only
    let host = d.choose("cat.host", 5);
    let mut t = legs;
    let mut hs = vec![];
    for _ in 0..host {
        let v = if t < tmax && d.coin("cat.hostt", 1, 3) {
            t += 1;
            let ph = t_phase(d);
            g.z(ph)
        } else {
            let ph = cliff_phase(d);
            g.z(ph)
        };
        hs.push(v);
        for &l in &ls {
            if d.coin("cat.hl", 1, 3) {
                g.h(v, l);
            }
        }
    }
    for i in 0..hs.len() {
        for j in (i + 1)..hs.len() {
            if d.coin("cat.hh", 1, 4) {
                g.h(hs[i], hs[j]);
            }
        }
    }
    g
}

/// Phase gadgets: Pauli hubs carrying a degree-1 T leaf, hubs attached to shared base vertices.
pub fn fam_gadget(d: &mut Decider, tmax: usize) -> GSpec {
    let mut g = GSpec::empty();
    let nbase = 2 + d.choose("gad.base", 4);
    let mut base = vec![];
    let mut t = 0;
    for _ in 0..nbase {
        let v = if t + 1 < tmax && d.coin("gad.bt", 1, 3) {
            t += 1;
            let ph = t_phase(d);
            g.z(ph)
        } else {
            let ph = cliff_phase(d);
            g.z(ph)
        };
        base.push(v);
    }
    for i in 0..nbase {
        for j in (i + 1)..nbase {
            if d.coin("gad.bb", 1, 3) {
                g.h(base[i], base[j]);
            }
        }
    }
    let ngad = 1 + d.choose("gad.n", 4);
    let share = d.coin("gad.share", 1, 2);
    let mut first_nhd: Option<Vec<usize>> = None;
    for _ in 0..ngad {
        if t >= tmax {
            break;
        }
        let hub_phase = pauli_phase(d);
        let hub = g.z(hub_phase);
        let ph = t_phase(d);
        let leaf = g.z(ph);
        t += 1;
        g.h(hub, leaf);
        let nhd: Vec<usize> = if share && first_nhd.is_some() && d.coin("gad.same", 2, 3) {
            first_nhd.clone().unwrap()
        } else {
            let mut s: Vec<usize> = base.iter().copied().filter(|_| d.coin("gad.in", 1, 2)).collect();
            if s.is_empty() {
                s.push(base[0]);
            }
            s
        };
        if first_nhd.is_none() {
            first_nhd = Some(nhd.clone());
        }
        for &b in &nhd {
            g.h(hub, b);
        }
    }
    g
}

/// Two or three cats (Pauli hub, mostly pi, 3..4 T legs each) side by side, sometimes with a few
/// loose T spiders. A driver that applies the magic-5 decomposition to five T spiders taken from
/// DIFFERENT places (Sherlock does) leaves terms that are not graph-like - plain edges between
/// spiders - and, without inter-step simplification, the next decomposition meets them as they are.
pub fn fam_pi_cats(d: &mut Decider, tmax: usize) -> GSpec {
    let mut g = GSpec::empty();
    let mut t = 0;
    let ncats = 2 + d.choose("pc.n", 2);
    for _ in 0..ncats {
        let legs = 3 + d.choose("pc.legs", 2);
        if t + legs > tmax {
            break;
        }
        let hub = g.z(if d.coin("pc.pi", 3, 4) { 4 } else { 0 });
        for _ in 0..legs {
            let ph = t_phase(d);
            let l = g.z(ph);
            g.h(hub, l);
            t += 1;
        }
    }
    while t < tmax && d.coin("pc.loose", 1, 3) {
        let ph = t_phase(d);
        g.z(ph);
        t += 1;
    }
    if g.verts.is_empty() {
        return fam_isolated(d, 2);
    }
    g
}

/// Two phase gadgets with 8..10 legs on nearly the same support: 9..10 non-Clifford support
/// spiders (so that full simplification cannot remove them), two hubs with a T leaf each; the
/// second support is the first one minus one or two spiders. The support spiders take their
/// numbers before, after, or interleaved with the hubs and leaves (what "the same support" means
/// to code that sorts, packs or hashes vertex ids depends on the numbering only). T-count 11..12,
/// beyond the usual bound of the closed sub-batch; 13..14 spiders.
pub fn fam_big_gadgets(d: &mut Decider) -> GSpec {
    let mut g = GSpec::empty();
    let m = 9 + d.choose("bg.m", 2);
    // creation order decides the numbering: 0 support first, 1 gadgets first, 2 interleaved
    let order = d.choose("bg.order", 3);
    let mut support = vec![];
    let mut hubs = vec![];
    let mk_gadget = |g: &mut GSpec, d: &mut Decider| -> usize {
        let hp = pauli_phase(d);
        let hub = g.z(hp);
        let ph = t_phase(d);
        let leaf = g.z(ph);
        g.h(hub, leaf);
        hub
    };
    if order == 1 {
        hubs.push(mk_gadget(&mut g, d));
        hubs.push(mk_gadget(&mut g, d));
    }
    for i in 0..m {
        if order == 2 && (i == 2 || i == m - 2) {
            hubs.push(mk_gadget(&mut g, d));
        }
        let ph = t_phase(d);
        support.push(g.z(ph));
    }
    while hubs.len() < 2 {
        hubs.push(mk_gadget(&mut g, d));
    }
    // the first gadget sits on the whole support, the second one leaves out 1..2 spiders taken
    // from the low end, the high end or anywhere
    let drop = 1 + d.choose("bg.drop", 2);
    let mut left_out = vec![];
    for k in 0..drop {
        let i = match d.choose("bg.where", 3) {
            0 => k,
            1 => m - 1 - k,
            _ => d.choose("bg.any", m),
        };
        if !left_out.contains(&i) {
            left_out.push(i);
        }
    }
    for (i, &s) in support.iter().enumerate() {
        g.h(hubs[0], s);
        if !left_out.contains(&i) {
            g.h(hubs[1], s);
        }
    }
    // a few edges inside the support
    for i in 0..m {
        for j in (i + 1)..m {
            if d.coin("bg.ss", 1, 8) {
                g.h(support[i], support[j]);
            }
        }
    }
    g
}

/// v (T) and w (non-T) joined through 1..4 degree-2 T spiders — the shape the
/// dynamic-T driver's pair decomposition looks for — inside a host.
pub fn fam_tpair(d: &mut Decider, tmax: usize) -> GSpec {
    let mut g = GSpec::empty();
    let ph = t_phase(d);
    let v = g.z(ph);
    let ph = cliff_phase(d);
    let w = g.z(ph);
    let m = (1 + d.choose("tp.m", 4)).min(tmax.saturating_sub(1).max(1));
    for _ in 0..m {
        let ph = t_phase(d);
        let x = g.z(ph);
        g.h(x, v);
        g.h(x, w);
    }
    let mut t = 1 + m;
    let host = d.choose("tp.host", 4);
    let mut hs = vec![];
    for _ in 0..host {
        let x = if t < tmax && d.coin("tp.ht", 1, 3) {
            t += 1;
            let ph = t_phase(d);
            g.z(ph)
        } else {
            let ph = cliff_phase(d);
            g.z(ph)
        };
        hs.push(x);
        if d.coin("tp.hv", 1, 2) {
            g.h(x, v);
        }
        if d.coin("tp.hw", 1, 2) {
            g.h(x, w);
        }
    }
    for i in 0..hs.len() {
        for j in (i + 1)..hs.len() {
            if d.coin("tp.hh", 1, 3) {
                g.h(hs[i], hs[j]);
            }
        }
    }
    if d.coin("tp.vw", 1, 4) {
        g.h(v, w);
    }
    g
}

pub fn fam_isolated(d: &mut Decider, tmax: usize) -> GSpec {
    let mut g = GSpec::empty();
    let k = 1 + d.choose("iso.k", tmax.clamp(1, 8));
    for _ in 0..k {
        let ph = t_phase(d);
        g.z(ph);
    }
    let c = d.choose("iso.c", 3);
    for _ in 0..c {
        let ph = cliff_phase(d);
        g.z(ph);
    }
    g
}

/// A closed graph-like diagram from one of the families (or a disjoint union).
pub fn closed_diagram(d: &mut Decider, nmax: usize, tmax: usize) -> (GSpec, &'static str) {
    let fam = d.choose("fam", 16);
    let (mut g, name) = match fam {
        14 => (fam_big_gadgets(d), "big_gadgets"),
        15 => (fam_pi_cats(d, tmax), "pi_cats"),
        12 | 13 => {
            // repeated components: several copies of the same small multi-T component next to
            // copies of another one (splitting, sharing or de-duplicating work between identical
            // components is where a parallel decomposer is tempted to be clever)
            let mut g = GSpec::empty();
            let kinds = 2 + d.choose("rep.kinds", 2);
            let mut t_left = tmax;
            for _ in 0..kinds {
                let per = (t_left / 2).clamp(1, 3);
                let comp = match d.choose("rep.fam", 3) {
                    0 => fam_er(d, 4, per),
                    1 => fam_cat(d, per.max(3)),
                    _ => fam_isolated(d, per.min(2)),
                };
                let copies = 1 + d.choose("rep.copies", 3);
                for c in 0..copies {
                    if comp.tcount() > t_left {
                        break;
                    }
                    t_left -= comp.tcount();
                    // a look-alike instead of an exact copy in some places: the same shape with the
                    // phases permuted among spiders of equal degree - same multiset of (type, phase,
                    // degree), same scalar, in general another value (what a cheap signature of a
                    // component cannot tell apart)
                    if c > 0 && d.coin("rep.twin", 1, 2) {
                        let mut twin = comp.clone();
                        let n = twin.verts.len();
                        for i in 0..n {
                            let same: Vec<usize> = (0..n).filter(|&j| j != i && twin.degree(j) == twin.degree(i) && twin.verts[j].0 == twin.verts[i].0).collect();
                            if !same.is_empty() && d.coin("rep.twin.swap", 1, 2) {
                                let j = same[d.choose("rep.twin.j", same.len())];
                                let (a, b) = ((twin.verts[i].1, twin.verts[i].2), (twin.verts[j].1, twin.verts[j].2));
                                twin.verts[i].1 = b.0;
                                twin.verts[i].2 = b.1;
                                twin.verts[j].1 = a.0;
                                twin.verts[j].2 = a.1;
                            }
                        }
                        g.union(&twin);
                    } else {
                        g.union(&comp);
                    }
                }
            }
            if g.verts.is_empty() {
                g = fam_isolated(d, 2);
            }
            (g, "repeat")
        }
        0..=3 => (fam_er(d, nmax, tmax), "er"),
        4..=5 => (fam_cat(d, tmax), "cat"),
        6..=7 => (fam_gadget(d, tmax), "gadget"),
        8 => (fam_tpair(d, tmax), "tpair"),
        9 => (fam_isolated(d, tmax), "isolated"),
        _ => {
            let parts = 2 + d.choose("un.parts", 3);
            let mut g = GSpec::empty();
            let each_t = (tmax / parts).max(1);
            let each_n = (nmax / parts).max(2);
            for _ in 0..parts {
                let p = match d.choose("un.fam", 5) {
                    0 | 1 => fam_er(d, each_n, each_t),
                    2 => fam_cat(d, each_t.max(3)),
                    3 => fam_gadget(d, each_t.max(2)),
                    _ => fam_isolated(d, each_t.min(3)),
                };
                g.union(&p);
            }
            (g, "union")
        }
    };
    // a non-trivial overall scalar in some runs
    if d.coin("scal", 1, 3) {
        g.sqrt2_pow = d.range("scal.p", -4, 4) as i32;
        g.omega_pow = d.range("scal.k", 0, 7);
    }
    // gaps in the vertex numbering in some runs
    if d.coin("holes", 1, 4) {
        g.holes = (0..g.verts.len()).map(|_| if d.coin("hole", 1, 3) { 1 + d.choose("hole.k", 2) as u8 } else { 0 }).collect();
    }
    (g, name)
}

// ------------------------------------------------------------------------------------------
// circuits
// ------------------------------------------------------------------------------------------

#[derive(Clone, Copy, Debug, PartialEq, Eq)]
pub struct GateMix {
    pub clifford_t_only: bool,
    pub allow_swap: bool,
    pub allow_ccz: bool,
    pub allow_xcx: bool,
    pub allow_rx: bool,
    /// max denominator for rz/rx phases when not clifford_t_only
    pub max_den: i64,
}

pub fn random_circuit(d: &mut Decider, n: usize, ngates: usize, mix: GateMix, tmax: usize) -> HCirc {
    let mut c = HCirc::new(n);
    let mut t = 0usize;
    // per-run weights (swarm)
    let w1 = 1 + d.choose("w.1q", 4);
    let w2 = if n >= 2 { 1 + d.choose("w.2q", 4) } else { 0 };
    let w3 = if n >= 3 && mix.allow_ccz { d.choose("w.3q", 2) } else { 0 };
    for _ in 0..ngates {
        let x = d.choose("gk", w1 + w2 + w3);
        if x < w1 {
            let q = d.choose("q", n);
            let mut kinds: Vec<GK> = vec![GK::H, GK::H, GK::S, GK::Sdg, GK::Z, GK::X];
            if t < tmax {
                kinds.extend([GK::T, GK::Tdg, GK::T, GK::T, GK::Tdg]);
                if !mix.clifford_t_only {
                    kinds.push(GK::Rz(0, 1));
                    if mix.allow_rx {
                        kinds.push(GK::Rx(0, 1));
                    }
                } else {
                    kinds.push(GK::Rz(0, 4));
                    if mix.allow_rx {
                        kinds.push(GK::Rx(0, 4));
                    }
                }
            }
            let mut k = *d.pick("k1", &kinds);
            match k {
                GK::Rz(_, den) | GK::Rx(_, den) => {
                    let (num, dd) = if den == 4 {
                        reduce(d.range("ph4", 1, 7), 4)
                    } else {
                        let dens: Vec<i64> = [3, 5, 6, 8, 12, 16]
                            .iter()
                            .copied()
                            .filter(|&x| x <= mix.max_den)
                            .collect();
                        let den = *d.pick("phden", &dens);
                        reduce(d.range("phnum", 1, 2 * den - 1), den)
                    };
                    k = if matches!(k, GK::Rz(..)) { GK::Rz(num, dd) } else { GK::Rx(num, dd) };
                    if k.is_non_clifford() {
                        t += 1;
                    }
                }
                GK::T | GK::Tdg => t += 1,
                _ => {}
            }
            c.gates.push(HGate { k, qs: vec![q] });
        } else if x < w1 + w2 {
            let a = d.choose("qa", n);
            let mut b = d.choose("qb", n - 1);
            if b >= a {
                b += 1;
            }
            let mut kinds = vec![GK::CX, GK::CX, GK::CZ];
            if mix.allow_swap {
                kinds.push(GK::Swap);
            }
            if mix.allow_xcx {
                kinds.push(GK::XCX);
            }
            let k = *d.pick("k2", &kinds);
            c.gates.push(HGate { k, qs: vec![a, b] });
        } else {
            if t + 7 > tmax {
                continue;
            }
            let p = d.permutation("q3", n);
            let k = *d.pick("k3", &[GK::CCZ, GK::CCX]);
            t += 7;
            c.gates.push(HGate { k, qs: vec![p[0], p[1], p[2]] });
        }
    }
    c
}

/// Build a quizx circuit from a harness circuit through quizx's public API.
pub fn to_quizx_circuit(c: &HCirc) -> quizx::circuit::Circuit {
    let mut q = quizx::circuit::Circuit::new(c.n);
    for g in &c.gates {
        match g.k {
            GK::Rz(n, d) | GK::Rx(n, d) => {
                q.add_gate_with_phase(g.k.name(), g.qs.clone(), Rational64::new(n, d));
            }
            GK::RzMix(..) | GK::RxMix(..) => {
                let (n, d) = g.k.phase().unwrap();
                q.add_gate_with_phase(g.k.name(), g.qs.clone(), Rational64::new(n, d));
            }
            _ => q.add_gate(g.k.name(), g.qs.clone()),
        }
    }
    q
}

/// The harness's own translation of a {H, Rz-like, CZ, CX} circuit to a ZX-diagram,
/// used to cross-check oracle A against oracle B.
pub fn circuit_to_spec(c: &HCirc) -> Option<GSpec> {
    let mut g = GSpec::empty();
    let mut cur = vec![];
    let mut pend = vec![false; c.n];
    for _ in 0..c.n {
        let b = g.add(0, 0, 1);
        g.inputs.push(b);
        cur.push(b);
    }
    let mut attach = |g: &mut GSpec, cur: &mut Vec<usize>, pend: &mut Vec<bool>, q: usize, ty: Ty, n: i64, dd: i64| -> usize {
        let (n, dd) = reduce(n.rem_euclid(2 * dd), dd);
        let v = g.add(ty, n, dd);
        g.edges.push((cur[q], v, pend[q]));
        cur[q] = v;
        pend[q] = false;
        v
    };
    for gate in &c.gates {
        match gate.k {
            GK::H => pend[gate.qs[0]] = !pend[gate.qs[0]],
            GK::CZ => {
                let a = attach(&mut g, &mut cur, &mut pend, gate.qs[0], 1, 0, 1);
                let b = attach(&mut g, &mut cur, &mut pend, gate.qs[1], 1, 0, 1);
                g.edges.push((a, b, true));
                g.sqrt2_pow += 1;
            }
            GK::CX => {
                let a = attach(&mut g, &mut cur, &mut pend, gate.qs[0], 1, 0, 1);
                let b = attach(&mut g, &mut cur, &mut pend, gate.qs[1], 2, 0, 1);
                g.edges.push((a, b, false));
                g.sqrt2_pow += 1;
            }
            k => match k {
                GK::Rx(n, dd) => {
                    attach(&mut g, &mut cur, &mut pend, gate.qs[0], 2, n, dd);
                }
                GK::RxMix(..) => {
                    let (n, dd) = k.phase()?;
                    attach(&mut g, &mut cur, &mut pend, gate.qs[0], 2, n, dd);
                }
                GK::X => {
                    attach(&mut g, &mut cur, &mut pend, gate.qs[0], 2, 1, 1);
                }
                _ => {
                    let (n, dd) = k.phase()?;
                    attach(&mut g, &mut cur, &mut pend, gate.qs[0], 1, n, dd);
                }
            },
        }
    }
    for q in 0..c.n {
        let b = g.add(0, 0, 1);
        g.edges.push((cur[q], b, pend[q]));
        g.outputs.push(b);
    }
    Some(g)
}

// ------------------------------------------------------------------------------------------
// general diagrams for the JSON round trip (C13)
// ------------------------------------------------------------------------------------------

pub fn json_diagram(d: &mut Decider) -> GSpec {
    json_diagram_sized(d, false)
}

/// `large`: 40..70 spiders with sparse edges, so that the JSON text exceeds the 8 KiB
/// buffers of BufWriter / BufReader several times
pub fn json_diagram_sized(d: &mut Decider, large: bool) -> GSpec {
    let mut g = GSpec::empty();
    let nsp = if large { 40 + d.choose("j.nsp.large", 31) } else { d.choose("j.nsp", 11) };
    // mostly 0..3 boundaries per side, sometimes up to 12 (two-digit positions in the lists)
    let many = !large && d.coin("j.manyio", 1, 8);
    let nin = if many { d.choose("j.nin.many", 13) } else { d.choose("j.nin", 4) };
    let nout = if many { d.choose("j.nout.many", 13) } else { d.choose("j.nout", 4) };
    let dens: [i64; 16] = [1, 1, 2, 4, 4, 8, 3, 5, 7, 16, 64, 256, 255, 97, 128, 12];
    let big_dens: [i64; 4] = [257, 1000, 65537, 1 << 20];
    let allow_big = d.coin("j.big", 1, 12);
    let hbox = d.coin("j.hbox", 1, 8);
    let mut spiders = vec![];
    for _ in 0..nsp {
        let ty: Ty = if hbox && d.coin("j.ish", 1, 5) {
            3
        } else if d.coin("j.isx", 1, 3) {
            2
        } else {
            1
        };
        let v = if ty == 3 && d.coin("j.hdef", 1, 2) {
            // H-box: default phase 1
            g.add(3, 1, 1)
        } else if ty == 3 {
            // H-box with another label: phase 0 (NOT the default), 1/2, k/4, ...
            let den = *d.pick("j.hden", &[1i64, 1, 2, 4, 8, 3]);
            let num = d.range("j.hnum", -(den - 1), den);
            let (n, dd) = reduce(if den == 1 { 0 } else { num }, den);
            g.add(3, n, dd)
        } else {
            let den = if allow_big && d.coin("j.usebig", 1, 4) {
                *d.pick("j.bden", &big_dens)
            } else {
                *d.pick("j.den", &dens)
            };
            let num = d.range("j.num", -(den - 1), den);
            let (n, dd) = reduce(num, den);
            g.add(ty, n, dd)
        };
        spiders.push(v);
    }
    // edges among spiders
    let p = if large { 2 + d.choose("j.p.large", 6) } else { d.choose("j.p", 70) };
    for i in 0..spiders.len() {
        for j in (i + 1)..spiders.len() {
            if d.choose("j.e", 100) < p {
                // H-boxes take plain edges only
                let had = g.verts[spiders[i]].0 != 3 && g.verts[spiders[j]].0 != 3 && d.coin("j.h", 1, 2);
                g.edges.push((spiders[i], spiders[j], had));
            }
        }
    }
    // boundaries
    let mut bs = vec![];
    for _ in 0..nin {
        let b = g.add(0, 0, 1);
        g.inputs.push(b);
        bs.push(b);
    }
    for _ in 0..nout {
        let b = g.add(0, 0, 1);
        g.outputs.push(b);
        bs.push(b);
    }
    // shuffle the order in which boundaries get attached, allow bare wires
    let order = d.permutation("j.border", bs.len());
    let mut free: Vec<usize> = order.iter().map(|&i| bs[i]).collect();
    while let Some(b) = free.pop() {
        let wire = !free.is_empty() && (spiders.is_empty() || d.coin("j.wire", 1, 5));
        if wire {
            let o = free.pop().unwrap();
            g.edges.push((b.min(o), b.max(o), d.coin("j.wh", 1, 2)));
        } else if !spiders.is_empty() {
            let s = spiders[d.choose("j.bs", spiders.len())];
            let had = g.verts[s].0 != 3 && d.coin("j.bh", 1, 3);
            g.edges.push((s.min(b), s.max(b), had));
        } else {
            // a single dangling boundary with nothing to attach to: drop it
            g.inputs.retain(|&x| x != b);
            g.outputs.retain(|&x| x != b);
            // leave the vertex out by marking; handled below
            g.verts[b].0 = 255;
        }
    }
    // remove marked vertices
    while let Some(v) = g.verts.iter().position(|v| v.0 == 255) {
        g = g.without_vertex(v);
    }
    // through wires: a single boundary vertex without edges that is listed both as an input and
    // as an output (at independent positions - a crossing bare wire when the lists are shuffled)
    if d.coin("j.through", 1, 8) {
        for _ in 0..1 + d.choose("j.through.k", 2) {
            let b = g.add(0, 0, 1);
            let pi = d.choose("j.through.i", g.inputs.len() + 1);
            g.inputs.insert(pi, b);
            let po = d.choose("j.through.o", g.outputs.len() + 1);
            g.outputs.insert(po, b);
        }
    }
    // the order of the input / output lists is independent of the vertex numbering
    if d.coin("j.ioshuffle", 1, 2) {
        let pi = d.permutation("j.iperm", g.inputs.len());
        g.inputs = pi.iter().map(|&i| g.inputs[i]).collect();
        let po = d.permutation("j.operm", g.outputs.len());
        g.outputs = po.iter().map(|&i| g.outputs[i]).collect();
    }
    if d.coin("j.holes", 1, 3) {
        g.holes = (0..g.verts.len()).map(|_| if d.coin("j.hole", 1, 3) { 1 + d.choose("j.hole.k", 2) as u8 } else { 0 }).collect();
    }
    // coordinates (large diagrams always get unique ones: the isomorphism search needs anchors)
    match if large { 5 } else { d.choose("j.coord", 10) } {
        8 | 9 => {
            // extreme but finite values: beyond i64, beyond 2^53, huge, tiny, subnormal, -0.0
            let xs: [f64; 18] = [
                1e19,
                -1e19,
                9.223372036854775807e18,
                -9.223372036854775808e18,
                9007199254740994.0,
                1e300,
                -1e300,
                1.7976931348623157e308,
                5e-324,
                2.2250738585072014e-308,
                0.30000000000000004,
                1e15 + 0.5,
                -0.0,
                123456789.125,
                4294967296.0,
                1e-7,
                18446744073709551616.0,
                -3.5e38,
            ];
            for (i, v) in g.verts.iter_mut().enumerate() {
                v.3 = if d.coin("j.xq", 1, 2) { *d.pick("j.xqv", &xs) } else { i as f64 };
                v.4 = if d.coin("j.xr", 1, 2) { *d.pick("j.xrv", &xs) } else { -(i as f64) * 0.5 };
            }
        }
        6 => {
            // fine-grained coordinates: thirds, sevenths, six decimals, tiny offsets
            for (i, v) in g.verts.iter_mut().enumerate() {
                v.3 = i as f64 + d.range("j.t3", 0, 2) as f64 / 3.0 + d.range("j.t7", 0, 6) as f64 / 7.0;
                v.4 = -(i as f64) * 1.5 + d.range("j.m6", 0, 999_999) as f64 * 1e-6;
            }
        }
        7 => {
            for (i, v) in g.verts.iter_mut().enumerate() {
                v.3 = (i as f64) * 1e-4 + d.range("j.e4", 1, 9) as f64 * 1e-5;
                v.4 = 1.0 / (3.0 + i as f64);
            }
        }
        0 => {} // all (0,0): maximal collisions
        1 => {
            for (i, v) in g.verts.iter_mut().enumerate() {
                v.3 = (i % 3) as f64;
                v.4 = (i / 3) as f64;
            }
        }
        2 => {
            for v in g.verts.iter_mut() {
                v.3 = d.range("j.cq", -8, 8) as f64 * 0.25;
                v.4 = d.range("j.cr", -8, 8) as f64 * 0.5;
            }
        }
        _ => {
            for (i, v) in g.verts.iter_mut().enumerate() {
                v.3 = i as f64 + 0.125 * d.range("j.fq", 0, 7) as f64;
                v.4 = (2 * i) as f64 - 3.0 + 0.001 * d.range("j.fr", 0, 999) as f64;
            }
        }
    }
    // scalar
    // magnitudes far from 1 for the general (not sqrt2^p * omega^k) classes too: |s| down to 2^-1000
    // and up to 2^1000, as the scalar of a diagram with a few thousand Hadamard edges has
    let far = |d: &mut Decider, near: i64| -> i32 {
        match d.choose("j.sp.class", 12) {
            // up to |s| = 2^1150: beyond the range of f64 (the format carries a power of two)
            0 => d.range("j.sp.huge", -2300, 2300) as i32,
            1 | 2 => d.range("j.sp.big", -600, 600) as i32,
            _ => d.range("j.sp", -near, near) as i32,
        }
    };
    match d.choose("j.scal", 8) {
        0 => {}
        6 => {
            // exact, but not a power of sqrt2 times a power of omega: small integer combinations
            g.sqrt2_pow = far(d, 4);
            loop {
                g.int_factor = [d.range("j.i0", -3, 3), d.range("j.i1", -2, 2), d.range("j.i2", -3, 3), d.range("j.i3", -2, 2)];
                if g.int_factor != [0, 0, 0, 0] {
                    break;
                }
            }
        }
        7 => {
            // the zero scalar: a (1 + e^{i pi}) factor
            g.sqrt2_pow = d.range("j.sp", -3, 3) as i32;
            g.omega_pow = d.range("j.sk", 0, 7);
            g.one_plus.push((1, 1));
        }
        1 | 2 => {
            g.sqrt2_pow = if d.coin("j.sp.far", 1, 6) { d.range("j.sp.big", -600, 600) as i32 } else { d.range("j.sp", -12, 12) as i32 };
            g.omega_pow = d.range("j.sk", 0, 7);
        }
        3 | 4 => {
            g.sqrt2_pow = far(d, 6);
            g.omega_pow = d.range("j.sk", 0, 7);
            let k = 1 + d.choose("j.nop", 4);
            for _ in 0..k {
                // (1 + ω^k) factors with k not 4 (which would be zero)
                let a = *d.pick("j.op", &[1, 2, 3, 5, 6, 7]);
                let (n, dd) = reduce(a, 4);
                g.one_plus.push((n, dd));
            }
        }
        _ => {
            g.sqrt2_pow = far(d, 3);
            let k = 1 + d.choose("j.nop", 3);
            for _ in 0..k {
                let den = *d.pick("j.opd", &[3, 5, 8, 16, 7]);
                let num = d.range("j.opn", 1, den - 1);
                let (n, dd) = reduce(num, den);
                g.one_plus.push((n, dd));
            }
        }
    }
    g
}
