//! Oracle I: input/output-anchored isomorphism of diagrams by colour
//! refinement plus backtracking (≤ ~24 vertices).

use crate::zxeval::{Dg, DV};
use std::collections::BTreeMap;

/// Is there a bijection f: V(a) → V(b) with inputs→inputs and outputs→outputs
/// in order, `compat(a_v, b_f(v))` for all v, and edges (with types) preserved?
/// Returns the mapping as (a id → b id) when one exists, else a reason.
pub fn anchored_iso(
    a: &Dg,
    b: &Dg,
    compat: &dyn Fn(&DV, &DV) -> bool,
) -> Result<BTreeMap<usize, usize>, String> {
    let n = a.verts.len();
    if n != b.verts.len() {
        return Err(format!("{} vertices vs {}", n, b.verts.len()));
    }
    if a.edges.len() != b.edges.len() {
        return Err(format!("{} edges vs {}", a.edges.len(), b.edges.len()));
    }
    if a.inputs.len() != b.inputs.len() || a.outputs.len() != b.outputs.len() {
        return Err(format!(
            "{} inputs / {} outputs vs {} / {}",
            a.inputs.len(),
            a.outputs.len(),
            b.inputs.len(),
            b.outputs.len()
        ));
    }
    let ia: BTreeMap<usize, usize> = a.verts.iter().enumerate().map(|(i, v)| (v.id, i)).collect();
    let ib: BTreeMap<usize, usize> = b.verts.iter().enumerate().map(|(i, v)| (v.id, i)).collect();
    let adj = |d: &Dg, idx: &BTreeMap<usize, usize>| -> Result<Vec<Vec<Option<bool>>>, String> {
        let mut m = vec![vec![None; n]; n];
        for &(u, v, h) in &d.edges {
            let (x, y) = match (idx.get(&u), idx.get(&v)) {
                (Some(&x), Some(&y)) => (x, y),
                _ => return Err("edge to unknown vertex".into()),
            };
            if m[x][y].is_some() {
                return Err("parallel edge".into());
            }
            m[x][y] = Some(h);
            m[y][x] = Some(h);
        }
        Ok(m)
    };
    let ma = adj(a, &ia)?;
    let mb = adj(b, &ib)?;
    // forced anchors
    let mut forced: Vec<Option<usize>> = vec![None; n];
    for (k, &v) in a.inputs.iter().enumerate() {
        let (x, y) = match (ia.get(&v), ib.get(&b.inputs[k])) {
            (Some(&x), Some(&y)) => (x, y),
            _ => return Err("input not a vertex".into()),
        };
        forced[x] = Some(y);
    }
    for (k, &v) in a.outputs.iter().enumerate() {
        let (x, y) = match (ia.get(&v), ib.get(&b.outputs[k])) {
            (Some(&x), Some(&y)) => (x, y),
            _ => return Err("output not a vertex".into()),
        };
        if let Some(prev) = forced[x] {
            if prev != y {
                return Err("a vertex is both input and output inconsistently".into());
            }
        }
        forced[x] = Some(y);
    }
    let sig = |m: &Vec<Vec<Option<bool>>>, i: usize| -> (usize, usize) {
        let plain = m[i].iter().filter(|e| **e == Some(false)).count();
        let had = m[i].iter().filter(|e| **e == Some(true)).count();
        (plain, had)
    };
    // candidate lists
    let mut cand: Vec<Vec<usize>> = vec![vec![]; n];
    for i in 0..n {
        for j in 0..n {
            if let Some(f) = forced[i] {
                if f != j {
                    continue;
                }
            }
            if sig(&ma, i) == sig(&mb, j) && compat(&a.verts[i], &b.verts[j]) {
                cand[i].push(j);
            }
        }
        if cand[i].is_empty() {
            return Err(format!(
                "vertex {} ({:?}, phase {}/{}, coord ({},{}), degree {:?}) has no counterpart",
                a.verts[i].id,
                a.verts[i].ty,
                a.verts[i].num,
                a.verts[i].den,
                a.verts[i].row,
                a.verts[i].qubit,
                sig(&ma, i)
            ));
        }
    }
    // order: fewest candidates first
    let mut order: Vec<usize> = (0..n).collect();
    order.sort_by_key(|&i| cand[i].len());
    let mut assign: Vec<Option<usize>> = vec![None; n];
    let mut used = vec![false; n];
    let mut nodes = 0u64;
    fn rec(
        k: usize,
        order: &[usize],
        cand: &[Vec<usize>],
        ma: &[Vec<Option<bool>>],
        mb: &[Vec<Option<bool>>],
        assign: &mut Vec<Option<usize>>,
        used: &mut Vec<bool>,
        nodes: &mut u64,
    ) -> bool {
        if k == order.len() {
            return true;
        }
        *nodes += 1;
        if *nodes > 2_000_000 {
            return false;
        }
        let i = order[k];
        for &j in &cand[i] {
            if used[j] {
                continue;
            }
            let mut ok = true;
            for &p in &order[..k] {
                let q = assign[p].unwrap();
                if ma[i][p] != mb[j][q] {
                    ok = false;
                    break;
                }
            }
            if !ok {
                continue;
            }
            assign[i] = Some(j);
            used[j] = true;
            if rec(k + 1, order, cand, ma, mb, assign, used, nodes) {
                return true;
            }
            assign[i] = None;
            used[j] = false;
        }
        false
    }
    if rec(0, &order, &cand, &ma, &mb, &mut assign, &mut used, &mut nodes) {
        Ok((0..n).map(|i| (a.verts[i].id, b.verts[assign[i].unwrap()].id)).collect())
    } else if nodes > 2_000_000 {
        Err("isomorphism search exceeded its node budget".into())
    } else {
        Err("no type/phase/coordinate/edge-type preserving bijection anchored at the inputs and outputs exists".into())
    }
}

pub fn self_test() -> Result<(), String> {
    use crate::decider::Decider;
    use crate::zxeval::{Sc, VT};
    let mut d = Decider::seeded(77);
    d.record_sites = false;
    for _ in 0..30 {
        let n = 3 + d.choose("n", 8);
        let mut verts = vec![];
        for i in 0..n {
            verts.push(DV {
                id: i,
                ty: if d.coin("t", 1, 2) { VT::Z } else { VT::X },
                num: d.range("p", 0, 3),
                den: 4,
                qubit: 0.0,
                row: 0.0,
            });
        }
        let mut edges = vec![];
        for x in 0..n {
            for y in (x + 1)..n {
                if d.coin("e", 1, 3) {
                    edges.push((x, y, d.coin("h", 1, 2)));
                }
            }
        }
        let a = Dg { verts: verts.clone(), edges: edges.clone(), inputs: vec![0], outputs: vec![n - 1], scalar: Sc::Float(1.0, 0.0), scalar_dyadic: None };
        // permuted copy
        let p = d.permutation("perm", n);
        let mut bv: Vec<DV> = vec![];
        for i in 0..n {
            let mut v = verts[i].clone();
            v.id = p[i] + 100;
            bv.push(v);
        }
        bv.sort_by_key(|v| v.id);
        let be: Vec<(usize, usize, bool)> = edges
            .iter()
            .map(|&(x, y, h)| {
                let (u, v) = (p[x] + 100, p[y] + 100);
                (u.min(v), u.max(v), h)
            })
            .collect();
        let b = Dg { verts: bv, edges: be.clone(), inputs: vec![p[0] + 100], outputs: vec![p[n - 1] + 100], scalar: Sc::Float(1.0, 0.0), scalar_dyadic: None };
        let eq = |x: &DV, y: &DV| x.ty == y.ty && x.num == y.num && x.den == y.den;
        anchored_iso(&a, &b, &eq).map_err(|e| format!("iso self-test: permuted copy rejected: {e}"))?;
        // break one edge type: must be rejected (unless the graph has no edges)
        if !be.is_empty() {
            let mut be2 = be.clone();
            be2[0].2 = !be2[0].2;
            let b2 = Dg { edges: be2, ..b.clone() };
            // may still be isomorphic by symmetry only if another edge of the opposite type can take its place;
            // count of hadamard edges differs, so it never is
            if anchored_iso(&a, &b2, &eq).is_ok() {
                return Err("iso self-test: edge-type change accepted".into());
            }
        }
    }
    Ok(())
}
