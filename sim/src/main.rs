//! qsim — deterministic simulation with fault injection for zxcalc/quizx.
//!
//! usage: qsim <ID> [quick|thorough] [--replay FILE] [--digests N] [--run SUB IDX] [--threads N]
//! exit: 0 held on everything explored; 1 violation (VIOLATION line printed); 2 harness error.

mod cli;
mod decider;
mod f2;
mod framework;
mod gatesim;
mod gen;
mod iso;
mod props;
mod ring;
mod selftest;
mod simcore;
mod zxeval;

use framework::*;

pub const DEFAULT_SEED: u64 = 20260925;

fn dispatch<P: Property>(p: &P, env: &Env, args: &Args) -> i32 {
    if let Some(f) = &args.replay {
        return replay_file(p, env, std::path::Path::new(f));
    }
    if let Some(n) = args.digests {
        return print_digests(p, env, n);
    }
    if let Some((sub, idx)) = &args.run {
        return run_single(p, env, sub, *idx);
    }
    let known = match load_known(&root_dir().join("known_findings.json")) {
        Ok(k) => k,
        Err(e) => {
            eprintln!("qsim: {e}");
            return 2;
        }
    };
    run_batch(p, env, &known, args.threads).exit
}

struct Args {
    id: String,
    tier: Tier,
    replay: Option<String>,
    digests: Option<usize>,
    run: Option<(String, usize)>,
    threads: usize,
}

fn parse_args() -> Result<Args, String> {
    let a: Vec<String> = std::env::args().skip(1).collect();
    if a.is_empty() {
        return Err("usage: qsim <ID> [quick|thorough] [--replay FILE] [--digests N] [--run SUB IDX] [--threads N]".into());
    }
    let mut args = Args {
        id: a[0].clone(),
        tier: match std::env::var("VERIF_TIER").as_deref() {
            Ok("thorough") => Tier::Thorough,
            _ => Tier::Quick,
        },
        replay: None,
        digests: None,
        run: None,
        threads: std::thread::available_parallelism().map(|n| n.get()).unwrap_or(4).min(16),
    };
    let mut i = 1;
    while i < a.len() {
        match a[i].as_str() {
            "quick" => args.tier = Tier::Quick,
            "thorough" => args.tier = Tier::Thorough,
            "--replay" => {
                i += 1;
                args.replay = Some(a.get(i).ok_or("--replay needs a file")?.clone());
            }
            "--digests" => {
                i += 1;
                args.digests = Some(a.get(i).and_then(|s| s.parse().ok()).ok_or("--digests needs N")?);
            }
            "--threads" => {
                i += 1;
                args.threads = a.get(i).and_then(|s| s.parse().ok()).ok_or("--threads needs N")?;
            }
            "--run" => {
                let sub = a.get(i + 1).ok_or("--run needs SUB IDX")?.clone();
                let idx = a.get(i + 2).and_then(|s| s.parse().ok()).ok_or("--run needs SUB IDX")?;
                args.run = Some((sub, idx));
                i += 2;
            }
            other => return Err(format!("unknown argument '{other}'")),
        }
        i += 1;
    }
    Ok(args)
}

fn main() {
    {
        let a: Vec<String> = std::env::args().collect();
        if a.len() == 3 && a[1] == "--child-gen" {
            std::process::exit(props::c19::child_gen(&a[2]));
        }
        if a.len() == 4 && a[1] == "--child-write-concurrent" {
            std::process::exit(props::c13::child_write_concurrent(&a[2], a[3].parse().unwrap_or(0)));
        }
        if a.len() == 6 && a[1] == "--child-read-graph" {
            std::process::exit(props::c13::child_read_graph(&a[2], a[3] == "1", a[4].parse().unwrap_or(0), &a[5]));
        }
        if a.len() == 6 && a[1] == "--child-write-graph" {
            std::process::exit(props::c13::child_write_graph(&a[2], &a[3], a[4].parse().unwrap_or(0), a[5].parse().unwrap_or(0)));
        }
    }
    if std::env::args().nth(1).as_deref() == Some("--pool-bench") {
        // micro-benchmark of the simulated worker pool's set-up / tear-down cost
        for w in [2usize, 4, 16] {
            let t0 = std::time::Instant::now();
            for i in 0..500u64 {
                let mut core = simcore::Core::new(decider::Decider::seeded(i), w);
                core.pool_workers = w;
                let (_r, _c) = simcore::with_sim(core, || 1 + 1);
            }
            println!("pool of {w}: {:.1} us per empty execution", t0.elapsed().as_secs_f64() * 1e6 / 500.0);
        }
        return;
    }
    simcore::install_panic_hook();
    simcore::mark_harness_thread();
    let args = match parse_args() {
        Ok(a) => a,
        Err(e) => {
            eprintln!("qsim: {e}");
            std::process::exit(2);
        }
    };
    let seed = std::env::var("VERIF_SEED")
        .ok()
        .and_then(|s| s.trim().parse::<u64>().ok())
        .unwrap_or(DEFAULT_SEED);
    // scratch directories of earlier checks that were killed (their process is gone) are removed
    if let Ok(rd) = std::fs::read_dir("/dev/shm") {
        for e in rd.flatten() {
            let name = e.file_name().to_string_lossy().to_string();
            if let Some(pid) = name.strip_prefix("qsim.").and_then(|p| p.parse::<u32>().ok()) {
                if !std::path::Path::new(&format!("/proc/{pid}")).exists() {
                    let _ = std::fs::remove_dir_all(e.path());
                }
            }
        }
    }
    let scratch = std::path::PathBuf::from(format!("/dev/shm/qsim.{}", std::process::id()));
    let _ = std::fs::create_dir_all(&scratch);
    let quizx_bin = std::env::var("QSIM_QUIZX_BIN").ok().map(std::path::PathBuf::from);
    let env = Env {
        seed,
        tier: args.tier,
        scratch: scratch.clone(),
        quizx_bin,
        self_exe: std::env::current_exe().unwrap(),
    };
    if let Err(e) = ring::self_test().and_then(|_| gatesim::self_test()) {
        eprintln!("qsim: oracle self-test failed: {e}");
        let _ = std::fs::remove_dir_all(&scratch);
        std::process::exit(2);
    }
    let uses_dev_full = matches!(args.id.as_str(), "C03" | "C06" | "C13");
    if uses_dev_full {
        if let Err(e) = cli::check_dev_full() {
            eprintln!("qsim: harness precondition failed: {e}");
            let _ = std::fs::remove_dir_all(&scratch);
            std::process::exit(2);
        }
    }
    let code = match args.id.as_str() {
        "C03" => dispatch(&props::c03::C03, &env, &args),
        "C05" => dispatch(&props::c05::C05, &env, &args),
        "C06" => dispatch(&props::c06::C06, &env, &args),
        "C13" => dispatch(&props::c13::C13, &env, &args),
        "C18" => dispatch(&props::c18::C18, &env, &args),
        "C19" => dispatch(&props::c19::C19, &env, &args),
        other => {
            eprintln!("qsim: no check for property '{other}'");
            2
        }
    };
    let mut code = code;
    if uses_dev_full {
        if let Err(e) = cli::check_dev_full() {
            // the code under test got at the device node itself (the harness only ever hands out
            // symbolic links to it): put it back, and do not trust a clean verdict of this batch
            eprintln!("qsim: /dev/full was damaged during the batch ({e}); restoring it");
            unsafe {
                let p = std::ffi::CString::new("/dev/full").unwrap();
                libc::unlink(p.as_ptr());
                libc::mknod(p.as_ptr(), libc::S_IFCHR | 0o666, libc::makedev(1, 7));
                libc::chmod(p.as_ptr(), 0o666);
            }
            if code == 0 {
                code = 2;
            }
        }
    }
    let _ = std::fs::remove_dir_all(&scratch);
    std::process::exit(code);
}
