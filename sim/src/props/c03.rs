//! C03 (CLI clause) — `quizx opt` end to end: the QASM it prints parses back to
//! a circuit on the same qubits, over {h, rz, cz, cx, swap}, equivalent to its
//! input up to a non-zero scalar; under I/O faults success means a complete,
//! equivalent program.

use crate::cli::{self, CliResult, InFault, OutFault, Scratch, SysPlan};
use crate::decider::{hash_str, mix, Decider};
use crate::framework::*;
use crate::gatesim::{self, HCirc, HGate, C64, GK};
use crate::gen::{self, GateMix};
use serde::{Deserialize, Serialize};
use serde_json::{json, Value};

#[derive(Clone, Copy, Debug, Serialize, Deserialize, PartialEq)]
pub enum Strategy {
    Default,
    Full,
    Flow,
    Clifford,
}

#[derive(Clone, Debug, Serialize, Deserialize, PartialEq)]
pub enum Mode {
    InProcess,
    ChildStdout,
    ChildFaults(InFault, OutFault),
    /// the shipped binary under the system-call seam: short reads / writes, EINTR, errno failures
    /// at decider-chosen calls on the input file, the -o file or stdout
    ChildSys { plan: SysPlan, to_stdout: bool },
    /// library level: simplify with the strategy, extract with the given extractor mode, in the
    /// given graph backend (no I/O, no process boundary)
    Lib {
        ex: ExMode,
        up_to_perm: bool,
        hash_backend: bool,
        /// the diagram is built with `to_graph_with_options(true, false)`: local simplification
        /// after every gate while the circuit is being translated (circuit.rs), before the strategy
        #[serde(default)]
        simp_build: bool,
    },
}

#[derive(Clone, Copy, Debug, Serialize, Deserialize, PartialEq)]
pub enum ExMode {
    /// gflow extractor, frontier Gaussian elimination restricted to one solution set (the default)
    SingleSlnSet,
    /// gflow extractor with plain Gaussian elimination
    SimpleGauss,
    /// Gauss-free extractor for diagrams with causal flow (offered for the flow strategy only)
    Flow,
}

#[derive(Clone, Debug, Serialize, Deserialize, PartialEq)]
pub struct Sc {
    pub circ: HCirc,
    pub strategy: Strategy,
    pub mode: Mode,
    /// what is at the -o path before the tool runs (cli::precreate): 0 nothing, 1 longer garbage,
    /// 2 a longer valid program
    #[serde(default)]
    pub pre: u8,
    /// in-process runs: an earlier `quizx opt` call on the same (fresh) thread before the one under
    /// test: 0 none; 1 a sibling circuit (same gates and qubits, other rz/rx angles); 2 the same
    /// with T/S replaced by their adjoints; 3 another circuit at the SAME input path, which is then
    /// overwritten by the real one; 4 a failing call (missing input) first
    #[serde(default)]
    pub history: u8,
    /// in-process runs: `-o` names the input file itself (optimise in place)
    #[serde(default)]
    pub in_place: bool,
}

#[derive(Clone, Copy)]
pub struct C03;

/// A valid program, repeated to fill a pre-existing output file (its statements would still parse
/// if they survived behind a shorter result).
const STALE_PROGRAM: &str = "h q[0];\ncx q[0], q[1];\nrz(0.25*pi) q[1];\n";

fn strategy_args(s: Strategy) -> Vec<String> {
    match s {
        Strategy::Default => vec![],
        Strategy::Full => vec!["--full".into()],
        Strategy::Flow => vec!["--flow".into()],
        Strategy::Clifford => vec!["--clifford".into()],
    }
}

/// A fixed pseudo-random product state (every basis state has non-zero amplitude).
fn product_state(n: usize, seed: u64) -> Vec<C64> {
    let mut x = crate::decider::Xoshiro::new(seed);
    let mut st = vec![C64(1.0, 0.0)];
    for _ in 0..n {
        let th = 0.3 + 0.9 * ((x.next() % 1000) as f64 / 1000.0);
        let ph = 6.283 * ((x.next() % 1000) as f64 / 1000.0);
        let (a, b) = (C64(th.cos(), 0.0), C64(th.sin() * ph.cos(), th.sin() * ph.sin()));
        let mut nx = Vec::with_capacity(st.len() * 2);
        // new qubit becomes the next higher bit
        for amp in [a, b] {
            for s in &st {
                nx.push(gatesim::Amp::mul(s, &amp));
            }
        }
        st = nx;
    }
    st
}

/// Judge the program text the optimiser produced for `input`.
fn judge_output(input: &HCirc, text: &str, how: &str, batch: &str, out: &mut RunOut) {
    judge_output_perm(input, text, how, batch, false, out)
}

/// All permutations of 0..n (n <= 6).
fn permutations(n: usize) -> Vec<Vec<usize>> {
    fn rec(cur: &mut Vec<usize>, used: &mut Vec<bool>, n: usize, out: &mut Vec<Vec<usize>>) {
        if cur.len() == n {
            out.push(cur.clone());
            return;
        }
        for i in 0..n {
            if !used[i] {
                used[i] = true;
                cur.push(i);
                rec(cur, used, n, out);
                cur.pop();
                used[i] = false;
            }
        }
    }
    let mut out = vec![];
    rec(&mut vec![], &mut vec![false; n], n, &mut out);
    out
}

/// `up_to_perm`: the printed program need only be equivalent after its input qubits are permuted.
fn judge_output_perm(input: &HCirc, text: &str, how: &str, batch: &str, up_to_perm: bool, out: &mut RunOut) {
    let mut vio = |class: &str, detail: String| {
        let v = Violation::new(class, detail).with("batch", batch);
        if !out.violations.iter().any(|x| x.key() == v.key()) {
            out.violations.push(v);
        }
    };
    // "parses back": quizx's own parser
    match quizx::circuit::Circuit::from_qasm(text) {
        Ok(c) => {
            if c.num_qubits() != input.n {
                vio("qubit_count_changed", format!("{how}: input has {} qubits, the printed program has {}", input.n, c.num_qubits()));
                return;
            }
        }
        Err(e) => {
            vio("output_does_not_parse", format!("{how}: Circuit::from_qasm rejects the printed program: {e}"));
            return;
        }
    }
    let p = match gatesim::parse_qasm(text) {
        Ok(p) => p,
        Err(e) => {
            vio("output_does_not_parse", format!("{how}: the harness parser rejects the printed program: {e}"));
            return;
        }
    };
    if p.n != input.n {
        vio("qubit_count_changed", format!("{how}: input has {} qubits, the printed program has {}", input.n, p.n));
        return;
    }
    for name in p.gate_names() {
        // H, Z-phase (rz or one of its named special cases), CZ, CNOT, SWAP
        if !["h", "rz", "z", "s", "sdg", "t", "tdg", "cz", "cx", "swap"].contains(&name) {
            vio("gate_outside_basic_set", format!("{how}: printed program uses '{name}'"));
            return;
        }
    }
    if input.n > 6 {
        // too wide for the full unitary: compare the action on two fixed pseudo-random product
        // states (all columns of the unitary enter with non-zero weight), up to one common scalar
        let mut us = vec![];
        let mut vs = vec![];
        for k in 0..2u64 {
            let st = product_state(input.n, 0x5eed_0000 + k);
            let mut a = st.clone();
            for g in &input.gates {
                gatesim::apply_gate(&mut a, g).expect("float gate");
            }
            us.push(a);
            vs.push(p.apply(&st));
        }
        for col in &vs {
            for a in col.iter().take(64) {
                out.event_digest = mix(out.event_digest, ((a.0 * 1e6).round() as i64 as u64) ^ ((a.1 * 1e6).round() as i64 as u64).rotate_left(21));
            }
        }
        if !gatesim::proj_equal(&us, &vs, 1e-7, false) {
            vio(
                "not_equivalent",
                format!("{how}: the printed {}-gate program acts differently from the input on random product states ({} qubits)", p.gates.len(), input.n),
            );
        }
        return;
    }
    let u = gatesim::unitary::<C64>(input).expect("float unitary");
    let v = p.unitary();
    for col in &v {
        for a in col {
            out.event_digest = mix(out.event_digest, ((a.0 * 1e6).round() as i64 as u64) ^ ((a.1 * 1e6).round() as i64 as u64).rotate_left(21));
        }
    }
    if up_to_perm {
        // V o P ~ U for some permutation P of the input qubits: column j of V o P is column pi(j) of V
        let n = input.n;
        let found = permutations(n).into_iter().any(|pi| {
            let vp: Vec<Vec<C64>> = (0..(1usize << n))
                .map(|j| {
                    let mut k = 0usize;
                    for q in 0..n {
                        if (j >> q) & 1 == 1 {
                            k |= 1 << pi[q];
                        }
                    }
                    v[k].clone()
                })
                .collect();
            gatesim::proj_equal(&u, &vp, 1e-7, false)
        });
        if !found {
            vio(
                "not_equivalent_up_to_permutation",
                format!("{how}: no permutation of the input qubits makes the printed {}-gate program equivalent to the input", p.gates.len()),
            );
        }
        return;
    }
    if !gatesim::proj_equal(&u, &v, 1e-7, false) {
        vio(
            "not_equivalent",
            format!("{how}: the printed {}-gate program does not implement the input's unitary up to a scalar", p.gates.len()),
        );
    }
}

impl Property for C03 {
    type Sc = Sc;
    fn id(&self) -> &'static str {
        "C03"
    }
    fn level(&self) -> &'static str {
        "fault_enumeration"
    }
    fn rule(&self) -> String {
        "decider generates a circuit (1..5 qubits, 0..30 gates over the QASM-expressible unitary set incl. swap, xcx, ccx, ccz, rz/rx with denominators <= 16, zero-gate programs, several registers), prints it with the harness's own QASM printer, picks the strategy switch (--full/--flow/--clifford/none) and runs `quizx opt` in-process through -o, or the shipped binary as a child on stdout, or the child under an input fault (missing, directory, empty, torn at a statement boundary, torn mid token) and/or an output fault (ENOSPC, RLIMIT_FSIZE torn write, missing directory, directory target, stdout to /dev/full, broken pipe), or the child under the system-call seam (LD_PRELOAD shim: short reads, short writes, EINTR and errno failures EIO/ENOSPC/EDQUOT/EMFILE/EACCES/... at decider-chosen open/read/write calls on the input file, the -o file or stdout; long programs in a quarter of those runs). Fault-free: exit 0, the output parses back (quizx's parser and the harness's), same qubit count, only h/rz/cz/cx/swap, unitary projectively equal to the input's by the harness's gate-matrix simulator. Under faults: success only with a complete program equivalent to the program the tool actually saw (under the system-call seam the file on disk is complete, so that is the whole program; a failure after a short transfer or EINTR is counted as a probe, not a verdict). Sub-batch lib (library-level clause; no I/O or schedule in it, so this part is seeded workload generation against the reference model rather than fault simulation): Circuit -> to_graph in the vector or the hash backend -> flow_simp / clifford_simp / full_simp -> Extractor in gflow single-solution-set, gflow simple-Gauss or (flow strategy only) Gauss-free flow mode, with or without up_to_perm; extraction must succeed and the circuit must be equivalent (for up_to_perm: for some permutation of the input qubits, all n! tried). Non-trivial: >=2 qubits, >=1 two-qubit gate, >=1 non-Clifford phase, output text differs from the input text. Distinct by (scenario digest, event digest).".into()
    }
    fn assumptions(&self) -> Vec<String> {
        vec![
            "the command-line clause is decided by fault simulation; the library-level clause (strategies x extractor modes x backends) is a pure function of the circuit, so its sub-batch `lib` is plain seeded generation against the same reference simulator - evidence, within <=6 qubits, not a fault or schedule exploration".into(),
            "the harness's gate-matrix simulator and QASM parser (self-tested) are correct; projective equality in f64 at 1e-7".into(),
        ]
    }
    fn real_vs_stub(&self) -> Value {
        json!({"real": ["clap parsing", "OptArgs::run", "openqasm parser on the real file", "to_graph, the chosen simplifier, gflow extraction, to_qasm", "fs::write / println!", "the shipped quizx binary for the child runs", "the kernel's open/read/write behind the LD_PRELOAD shim (the shim only decides how many bytes a call may transfer or which errno it returns; data always moves through the real system call)"], "stubbed": []})
    }
    fn sub_batches(&self) -> Vec<SubBatch> {
        vec![
            SubBatch { name: "plain", quick: 80_000, thorough: 500_000 },
            SubBatch { name: "swap", quick: 20_000, thorough: 120_000 },
            SubBatch { name: "empty", quick: 1_000, thorough: 2_000 },
            SubBatch { name: "wide", quick: 600, thorough: 20_000 },
            SubBatch { name: "dense", quick: 12_000, thorough: 300_000 },
            SubBatch { name: "child", quick: 1_500, thorough: 8_000 },
            SubBatch { name: "faults", quick: 3_000, thorough: 16_000 },
            SubBatch { name: "sysfaults", quick: 3_000, thorough: 40_000 },
            SubBatch { name: "lib", quick: 40_000, thorough: 400_000 },
        ]
    }
    fn expected_probes(&self) -> Vec<&'static str> {
        vec!["strategy.full", "strategy.flow", "strategy.clifford", "strategy.default", "multi_register_input", "fault_led_to_reported_failure", "gate.h", "gate.x", "gate.z", "gate.s", "gate.sdg", "gate.t", "gate.tdg", "gate.rz", "gate.rx", "gate.cx", "gate.cz", "gate.swap", "gate.xcx", "gate.ccx", "gate.ccz"]
    }

    fn generate(&self, d: &mut Decider, _tier: Tier, sub: &str) -> Sc {
        let (n, ng) = if sub == "lib" && d.coin("lib.dense", 1, 4) {
            (4 + d.choose("dn", 2), 30 + d.choose("dng", 41))
        } else if sub == "dense" {
            // longer circuits on 4..6 qubits: the local shapes the rewrite rules and the frontier
            // Gaussian elimination only meet after many gates (pivots with shared neighbours, row
            // swaps, gadgets of higher degree)
            (4 + d.choose("dn", 3), 30 + d.choose("dng", 51))
        } else if sub == "wide" {
            // more than nine qubits (two-digit indices), few gates; judged on random input states
            (10 + d.choose("wn", 3), d.choose("wng", 14))
        } else if sub == "sysfaults" && d.coin("sys.long", 1, 4) {
            // long programs: input and output larger than one buffer of the usual I/O wrappers
            (3 + d.choose("sn", 3), 300 + d.choose("sng", 500))
        } else {
            (1 + d.choose("n", 5), d.choose("ng", 31))
        };
        let mix = GateMix { clifford_t_only: d.coin("ct", 1, 2), allow_swap: sub == "swap" || (sub == "lib" && d.coin("lib.swap", 1, 3)), allow_ccz: true, allow_xcx: true, allow_rx: true, max_den: 16 };
        let mut circ = match sub {
            "empty" => HCirc::new(n),
            _ => gen::random_circuit(d, n, ng, mix, 40),
        };
        if sub == "swap" && n >= 2 && !circ.has(|k| *k == GK::Swap) {
            let a = d.choose("sa", n);
            let mut b = d.choose("sb", n - 1);
            if b >= a {
                b += 1;
            }
            let pos = d.choose("spos", circ.gates.len() + 1);
            circ.gates.insert(pos, HGate { k: GK::Swap, qs: vec![a, b] });
        }
        // several registers in some runs
        if n >= 2 && d.coin("regs", 1, 4) {
            let cut = 1 + d.choose("cut", n - 1);
            circ.regs = vec![cut, n - cut];
        }
        // equivalent spellings of the same program in half of the runs
        if d.coin("style", 1, 2) {
            circ.style = d.draw64("style.seed") | 1;
        }
        // some gates called through towers of user-defined gates (never with torn input: the
        // harness finds the statement a cut falls into by counting semicolons)
        if sub != "faults" && d.coin("defs", 1, 6) {
            circ.defs = d.draw64("defs.seed") | 1;
        }
        let mut strategy = *d.pick("strategy", &[Strategy::Default, Strategy::Full, Strategy::Flow, Strategy::Clifford]);
        let mode = match sub {
            "lib" => {
                let ex = *d.pick("lib.ex", &[ExMode::SingleSlnSet, ExMode::SimpleGauss, ExMode::Flow]);
                if ex == ExMode::Flow {
                    strategy = Strategy::Flow;
                }
                // the diagram built with local simplification after every gate is a legal diagram of
                // the circuit (same linear map), but not of the shape the flow strategy relies on:
                // only the Clifford and full strategies, which normalise any graph-like diagram,
                // are asked to cope with it (DESIGN §9.4)
                let sb = d.coin("lib.sb", 1, 4) && strategy != Strategy::Flow;
                Mode::Lib { ex, up_to_perm: d.coin("lib.perm", 1, 3), hash_backend: d.coin("lib.hb", 1, 2), simp_build: sb }
            }
            "child" => Mode::ChildStdout,
            "faults" => {
                let ng = circ.gates.len();
                let inf = match d.choose("inf", 8) {
                    0 => InFault::Missing,
                    1 => InFault::IsDir,
                    2 => InFault::Empty,
                    3 => InFault::TruncatedAtStatement(if ng >= 2 { 1 + d.choose("ts", ng - 1) } else { ng }),
                    4 => InFault::TruncatedMid(d.choose("tm", 60 + 14 * ng)),
                    _ => InFault::None,
                };
                let outf = if inf == InFault::None || d.coin("both", 1, 6) {
                    match d.choose("outf", 8) {
                        0 => OutFault::Enospc,
                        1 => OutFault::Efbig(d.choose("efbig", 200) as u64),
                        2 => OutFault::NoDir,
                        3 => OutFault::IsDir,
                        4 => OutFault::StdoutEnospc,
                        5 => OutFault::StdoutEpipe,
                        6 => OutFault::StdoutClosed,
                        _ => OutFault::Efbig(100_000),
                    }
                } else {
                    OutFault::None
                };
                Mode::ChildFaults(inf, outf)
            }
            "sysfaults" => {
                let hard = d.coin("sys.hard", 1, 3);
                Mode::ChildSys { plan: cli::gen_sysplan(d, hard), to_stdout: d.coin("sys.stdout", 1, 2) }
            }
            _ => Mode::InProcess,
        };
        let pre = if d.coin("pre", 1, 3) { 1 + d.choose("prek", 2) as u8 } else { 0 };
        let history = if matches!(mode, Mode::InProcess) && d.coin("hist", 1, 4) { 1 + d.choose("histk", 4) as u8 } else { 0 };
        let in_place = matches!(mode, Mode::InProcess) && d.coin("inplace", 1, 16);
        Sc { circ, strategy, mode, pre, history, in_place }
    }

    fn execute(&self, sc: &Sc, sub: &str, exec: Decider, env: &Env) -> RunOut {
        let mut out = RunOut { engine: "native", ..Default::default() };
        out.scenario_digest = hash_str(&serde_json::to_string(sc).unwrap());
        let mut dec = exec;
        let tag = format!("c03-{:016x}", mix(out.scenario_digest, dec.digest ^ 0x3));
        let scratch = Scratch::new(&env.scratch, &tag);
        out.probe(match sc.strategy {
            Strategy::Default => "strategy.default",
            Strategy::Full => "strategy.full",
            Strategy::Flow => "strategy.flow",
            Strategy::Clifford => "strategy.clifford",
        });
        if sc.circ.regs.len() > 1 {
            out.probe("multi_register_input");
        }
        // which gate kinds this run's program uses (a kind that never shows up in a whole batch is a
        // hole in the workload, however the generator is described)
        {
            let mut kinds: Vec<&'static str> = sc.circ.gates.iter().map(|g| g.k.name()).collect();
            kinds.sort();
            kinds.dedup();
            for k in kinds {
                out.probe(&format!("gate.{k}"));
            }
        }
        let header = sc.circ.qasm_header();
        let stmts = sc.circ.qasm_statements();
        let input_text = sc.circ.to_qasm();
        let base_nontrivial = sc.circ.n >= 2
            && sc.circ.gates.iter().any(|g| g.k.arity() >= 2)
            && sc.circ.gates.iter().any(|g| g.k.is_non_clifford());
        match &sc.mode {
            Mode::InProcess => {
                if sc.history > 0 {
                    out.probe(&format!("cli_call_history.{}", sc.history));
                    let wpath = match sc.history {
                        3 => cli::input_path(&scratch, &header, &stmts),
                        4 => scratch.path("no-such-file.qasm"),
                        _ => scratch.path("earlier.qasm"),
                    };
                    if sc.history != 4 {
                        std::fs::write(&wpath, super::c06::sibling(&sc.circ, sc.history >= 2).to_qasm()).expect("scratch write");
                    }
                    let mut argv: Vec<String> = vec!["quizx".into(), "opt".into(), wpath.to_string_lossy().to_string()];
                    argv.extend(strategy_args(sc.strategy));
                    argv.push("-o".into());
                    argv.push(scratch.path("earlier-out.qasm").to_string_lossy().to_string());
                    let (_res, core) = cli::run_in_process(&argv, dec, 1);
                    dec = core.dec;
                    out.steps += 1;
                }
                let input = cli::prepare_input(&scratch, &header, &stmts, &InFault::None);
                let outp = if sc.in_place { input.clone() } else { scratch.path("out.qasm") };
                if sc.in_place {
                    out.probe("output_is_the_input_file");
                } else {
                    cli::precreate(&outp, sc.pre, STALE_PROGRAM);
                    if sc.pre > 0 {
                        out.probe("output_file_preexisting_longer_content");
                    }
                }
                let mut argv: Vec<String> = vec!["quizx".into(), "opt".into(), input.to_string_lossy().to_string()];
                argv.extend(strategy_args(sc.strategy));
                argv.push("-o".into());
                argv.push(outp.to_string_lossy().to_string());
                let (res, core) = cli::run_in_process(&argv, dec, 1);
                dec = core.dec;
                out.steps += 1;
                let how = format!("opt {}", strategy_args(sc.strategy).join(" "));
                match res {
                    CliResult::Ok(_) => match std::fs::read_to_string(&outp) {
                        Ok(text) => {
                            judge_output(&sc.circ, &text, &how, sub, &mut out);
                            out.nontrivial = base_nontrivial && text.trim() != input_text.trim();
                        }
                        Err(e) => out.violations.push(Violation::new("success_without_output", format!("{how}: reported success but the -o file cannot be read: {e}")).with("batch", sub)),
                    },
                    CliResult::Err(e) => out.violations.push(Violation::new("unexpected_error", format!("{how}: failed on a well-formed circuit: {e}")).with("batch", sub)),
                    CliResult::Panic(m) => out.violations.push(Violation::new("panic", format!("{how}: {m}")).with("batch", sub).with("msg", super::c18::norm_msg(&m))),
                    CliResult::Budget => out.inconclusive = true,
                }
            }
            Mode::ChildStdout => {
                out.engine = "child_process";
                let bin = env.quizx_bin.clone().expect("QSIM_QUIZX_BIN not set");
                let input = cli::prepare_input(&scratch, &header, &stmts, &InFault::None);
                let mut tail: Vec<String> = vec!["opt".into(), input.to_string_lossy().to_string()];
                tail.extend(strategy_args(sc.strategy));
                let res = cli::run_child_stdout(&bin, &tail);
                out.steps += 1;
                let how = format!("quizx opt {} (child, stdout)", strategy_args(sc.strategy).join(" "));
                match res {
                    CliResult::Ok(Some(text)) => {
                        judge_output(&sc.circ, &text, &how, sub, &mut out);
                        out.nontrivial = base_nontrivial;
                    }
                    CliResult::Ok(None) => {}
                    CliResult::Err(e) => out.violations.push(Violation::new("unexpected_error", format!("{how}: {e}")).with("batch", sub)),
                    CliResult::Panic(m) => out.violations.push(Violation::new("panic", format!("{how}: {m}")).with("batch", sub).with("msg", super::c18::norm_msg(&m))),
                    CliResult::Budget => {}
                }
            }
            Mode::ChildSys { plan, to_stdout } => {
                out.engine = "child_process";
                let bin = env.quizx_bin.clone().expect("QSIM_QUIZX_BIN not set");
                let input = cli::prepare_input(&scratch, &header, &stmts, &InFault::None);
                let mut tail: Vec<String> = vec!["opt".into(), input.to_string_lossy().to_string()];
                tail.extend(strategy_args(sc.strategy));
                if !*to_stdout {
                    cli::precreate(&scratch.path("out.txt"), sc.pre, STALE_PROGRAM);
                    if sc.pre > 0 {
                        out.probe("output_file_preexisting_longer_content");
                    }
                }
                let (res, events) = cli::run_child_sys(&bin, &tail, &scratch, plan, *to_stdout);
                out.steps += 1 + events.len() as u64;
                let mut fired = 0;
                let mut hard = false;
                for e in &events {
                    out.ev_str(&e.digest_text());
                    if let Some(name) = e.fault_name() {
                        out.fault(&name);
                        fired += 1;
                        hard |= e.is_hard_error();
                    }
                }
                if fired == 0 {
                    out.fault("sys_none_fired");
                }
                let how = format!("quizx opt {} ({}) under system-call plan {}", strategy_args(sc.strategy).join(" "), if *to_stdout { "stdout" } else { "-o" }, plan.env());
                match res {
                    // the input file is complete on disk whatever the reads did, so a reported success
                    // is judged against the whole program: short transfers, EINTR and errors may make
                    // the tool fail, never make it print something else
                    CliResult::Ok(Some(text)) => {
                        out.ev_str("ok");
                        out.probe(if hard { "sys_success_after_errno_judged" } else if fired > 0 { "sys_success_under_transparent_faults_judged" } else { "sys_success_no_fault_fired" });
                        let before = out.violations.len();
                        judge_output(&sc.circ, &text, &how, sub, &mut out);
                        if out.violations.len() > before && fired > 0 {
                            for v in out.violations[before..].iter_mut() {
                                v.class = format!("sys_{}", v.class);
                            }
                        }
                    }
                    CliResult::Ok(None) => out.violations.push(Violation::new("success_without_output", format!("{how}: exit 0 but the -o file cannot be read")).with("batch", sub)),
                    CliResult::Err(e) => {
                        out.ev_str("err");
                        if fired == 0 {
                            out.violations.push(Violation::new("unexpected_error", format!("{how}: {e}")).with("batch", sub));
                        } else if hard {
                            out.probe("fault_led_to_reported_failure");
                        } else {
                            // short transfers and EINTR are legal behaviour of read(2)/write(2) that callers are
                            // expected to absorb; the property does not say so, hence a probe, not a verdict
                            out.probe("sys_transparent_fault_led_to_failure");
                        }
                    }
                    CliResult::Panic(m) => {
                        out.ev_str("panic");
                        if fired == 0 {
                            out.violations.push(Violation::new("panic", format!("{how}: {m}")).with("batch", sub).with("msg", super::c18::norm_msg(&m)));
                        } else {
                            out.probe("fault_led_to_panic");
                        }
                    }
                    CliResult::Budget => {}
                }
                out.nontrivial = fired > 0;
            }
            Mode::Lib { ex, up_to_perm, hash_backend, simp_build } => {
                use quizx::extract::ToCircuit;
                use quizx::graph::GraphLike;
                fn go<G: GraphLike + ToCircuit>(qc: &quizx::circuit::Circuit, strategy: Strategy, ex: ExMode, up_to_perm: bool, sb: bool) -> Result<(String, usize), String> {
                    let mut g: G = if sb { qc.to_graph_with_options(true, false) } else { qc.to_graph() };
                    match strategy {
                        Strategy::Default | Strategy::Full => {
                            quizx::simplify::full_simp(&mut g);
                        }
                        Strategy::Flow => {
                            quizx::simplify::flow_simp(&mut g);
                        }
                        Strategy::Clifford => {
                            quizx::simplify::clifford_simp(&mut g);
                        }
                    }
                    let mut e = g.extractor();
                    match ex {
                        ExMode::SingleSlnSet => e.gflow(),
                        ExMode::SimpleGauss => e.gflow_simple_gauss(),
                        ExMode::Flow => e.flow(),
                    };
                    if up_to_perm {
                        e.up_to_perm();
                    }
                    match e.extract() {
                        Ok(c) => Ok((c.to_qasm(), c.num_qubits())),
                        Err(e) => Err(e.0),
                    }
                }
                out.probe(&format!("lib.extractor.{ex:?}"));
                out.probe(if *hash_backend { "lib.backend.hash" } else { "lib.backend.vec" });
                if *up_to_perm {
                    out.probe("lib.up_to_perm");
                }
                if *simp_build {
                    out.probe("lib.simplified_while_building");
                }
                let sb = *simp_build;
                let qc = gen::to_quizx_circuit(&sc.circ);
                let (strategy, ex, utp, hb) = (sc.strategy, *ex, *up_to_perm, *hash_backend);
                let core = crate::simcore::Core::new(dec, 1);
                let (res, core) = crate::simcore::with_sim(core, move || {
                    if hb {
                        go::<quizx::hash_graph::Graph>(&qc, strategy, ex, utp, sb)
                    } else {
                        go::<quizx::vec_graph::Graph>(&qc, strategy, ex, utp, sb)
                    }
                });
                dec = core.dec;
                out.steps += 1;
                let how = format!(
                    "library: {}{:?} simplification, {:?} extractor{}, {} backend",
                    if sb { "diagram simplified while it is built, " } else { "" },
                    sc.strategy,
                    ex,
                    if utp { " up to permutation" } else { "" },
                    if hb { "hash" } else { "vector" }
                );
                match res {
                    crate::simcore::Caught::Ok(Ok((text, _nq))) => {
                        judge_output_perm(&sc.circ, &text, &how, sub, utp, &mut out);
                        out.nontrivial = base_nontrivial;
                    }
                    crate::simcore::Caught::Ok(Err(e)) => out.violations.push(Violation::new("extraction_failed", format!("{how}: {e}")).with("batch", sub).with("extractor", &format!("{ex:?}"))),
                    crate::simcore::Caught::Panic(m) => out.violations.push(Violation::new("panic", format!("{how}: {m}")).with("batch", sub).with("msg", super::c18::norm_msg(&m))),
                    crate::simcore::Caught::Budget => out.inconclusive = true,
                }
            }
            Mode::ChildFaults(inf, outf) => {
                out.engine = "child_process";
                let bin = env.quizx_bin.clone().expect("QSIM_QUIZX_BIN not set");
                let input = cli::prepare_input(&scratch, &header, &stmts, inf);
                let mut tail: Vec<String> = vec!["opt".into(), input.to_string_lossy().to_string()];
                tail.extend(strategy_args(sc.strategy));
                if matches!(outf, OutFault::None | OutFault::Efbig(_)) {
                    cli::precreate(&scratch.path("out.txt"), sc.pre, STALE_PROGRAM);
                    if sc.pre > 0 {
                        out.probe("output_file_preexisting_longer_content");
                    }
                }
                let (res, _p) = cli::run_child(&bin, &tail, &scratch, outf);
                out.steps += 1;
                out.fault(inf.name());
                out.fault(outf.name());
                let how = format!("quizx opt {} under {:?}/{:?}", strategy_args(sc.strategy).join(" "), inf, outf);
                // the program the tool actually saw
                let seen: Option<HCirc> = match inf {
                    InFault::None => Some(sc.circ.clone()),
                    // an empty file is not a program (the OPENQASM header is mandatory): nothing the
                    // tool could print would be a correct artefact
                    InFault::Empty => None,
                    InFault::TruncatedAtStatement(k) => {
                        let mut c = sc.circ.clone();
                        c.gates.truncate(*k);
                        Some(c)
                    }
                    InFault::TruncatedMid(k) => {
                        let full = input_text.clone();
                        let cut = (*k).min(full.len());
                        if cut < header.trim_end().len() {
                            None
                        } else {
                            let mut off = header.len();
                            let mut kk = 0;
                            for st in &stmts {
                                // a statement is complete once its ';' is inside the cut
                                // (blanks or a comment may follow it)
                                if off + st.find(';').map(|i| i + 1).unwrap_or(st.len()) <= cut {
                                    kk += 1;
                                    off += st.len();
                                } else {
                                    break;
                                }
                            }
                            let mut c = sc.circ.clone();
                            c.gates.truncate(kk);
                            Some(c)
                        }
                    }
                    InFault::Missing | InFault::IsDir => None,
                };
                let must_fail_out = matches!(outf, OutFault::Enospc | OutFault::NoDir | OutFault::IsDir | OutFault::StdoutEnospc | OutFault::StdoutEpipe);
                match res {
                    CliResult::Ok(text) => {
                        out.ev_str("ok");
                        // torn inside the header: still a (degenerate) valid program only if the cut
                        // falls on a statement boundary after the OPENQASM line
                        let cut_in_header = match inf {
                            InFault::TruncatedMid(k) if *k < header.trim_end().len() => {
                                let kept = &header[..*k];
                                !(kept.trim_end().ends_with(';') && kept.contains("OPENQASM 2.0;"))
                            }
                            _ => false,
                        };
                        if matches!(inf, InFault::Empty) || cut_in_header {
                            out.violations.push(Violation::new("success_despite_fault", format!("{how}: exit 0 although the input is not a complete program (empty, or torn inside its header)")).with("batch", sub).with("fault", inf.name()));
                        } else if matches!(inf, InFault::Missing | InFault::IsDir) {
                            out.violations.push(Violation::new("success_despite_fault", format!("{how}: exit 0 with an unreadable input")).with("batch", sub).with("fault", inf.name()));
                        } else if must_fail_out && !(matches!(outf, OutFault::Enospc) && text.is_some()) {
                            // (an ENOSPC target that the tool replaced by a complete file of its own is judged below)
                            out.violations.push(Violation::new("success_despite_fault", format!("{how}: exit 0 although the program could not be written")).with("batch", sub).with("fault", outf.name()));
                        } else if matches!(outf, OutFault::StdoutClosed) {
                            out.probe("stdout_closed_not_judged");
                        } else if let (Some(seen), Some(text)) = (seen, text) {
                            out.probe("fault_success_judged");
                            judge_output(&seen, &text, &how, sub, &mut out);
                        } else {
                            out.probe("fault_success_not_judged");
                        }
                    }
                    CliResult::Err(e) => {
                        out.ev_str("err");
                        out.probe("fault_led_to_reported_failure");
                        if inf == &InFault::None && outf == &OutFault::None {
                            out.violations.push(Violation::new("unexpected_error", format!("{how}: {e}")).with("batch", sub));
                        }
                    }
                    CliResult::Panic(m) => {
                        out.ev_str("panic");
                        out.probe("fault_led_to_panic");
                        if inf == &InFault::None && outf == &OutFault::None {
                            out.violations.push(Violation::new("panic", format!("{how}: {m}")).with("batch", sub).with("msg", super::c18::norm_msg(&m)));
                        }
                    }
                    CliResult::Budget => {}
                }
                out.nontrivial = true;
            }
        }
        out.ev(dec.digest);
        out.exec_trace = dec.values();
        for v in &out.violations {
            out.event_digest = mix(out.event_digest, hash_str(&v.key()));
        }
        out.sample = Some(json!({"qasm": input_text, "strategy": format!("{:?}", sc.strategy), "mode": sc.mode}));
        out
    }

    fn shrink(&self, sc: &Sc) -> Vec<Sc> {
        let mut c = vec![];
        let ng = sc.circ.gates.len();
        if ng > 3 {
            let mut a = sc.circ.clone();
            a.gates.truncate(ng / 2);
            c.push(Sc { circ: a, ..sc.clone() });
            let mut b = sc.circ.clone();
            b.gates.drain(..ng / 2);
            c.push(Sc { circ: b, ..sc.clone() });
        }
        for i in 0..ng {
            let mut cc = sc.circ.clone();
            cc.gates.remove(i);
            c.push(Sc { circ: cc, ..sc.clone() });
        }
        let n = sc.circ.n;
        if n > 1 && !sc.circ.gates.iter().any(|g| g.qs.contains(&(n - 1))) {
            let mut cc = sc.circ.clone();
            cc.n = n - 1;
            cc.regs = vec![n - 1];
            c.push(Sc { circ: cc, ..sc.clone() });
        }
        if sc.circ.regs.len() > 1 {
            let mut cc = sc.circ.clone();
            cc.regs = vec![n];
            c.push(Sc { circ: cc, ..sc.clone() });
        }
        for i in 0..ng {
            let g = &sc.circ.gates[i];
            let simpler = match g.k {
                GK::CCX | GK::CCZ => Some((GK::CZ, g.qs[..2].to_vec())),
                GK::XCX => Some((GK::CX, g.qs.clone())),
                GK::Rx(..) | GK::Rz(..) => Some((GK::T, g.qs.clone())),
                _ => None,
            };
            if let Some((k, qs)) = simpler {
                let mut cc = sc.circ.clone();
                cc.gates[i] = HGate { k, qs };
                c.push(Sc { circ: cc, ..sc.clone() });
            }
        }
        if sc.strategy != Strategy::Default {
            c.push(Sc { strategy: Strategy::Default, ..sc.clone() });
        }
        if sc.pre != 0 {
            c.push(Sc { pre: 0, ..sc.clone() });
        }
        if sc.history != 0 {
            c.push(Sc { history: 0, ..sc.clone() });
        }
        if sc.in_place {
            c.push(Sc { in_place: false, ..sc.clone() });
        }
        if let Mode::ChildSys { plan, to_stdout } = &sc.mode {
            for p in cli::shrink_sysplan(plan) {
                c.push(Sc { mode: Mode::ChildSys { plan: p, to_stdout: *to_stdout }, ..sc.clone() });
            }
        }
        c
    }
}
