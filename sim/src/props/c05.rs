//! C05 — stabiliser decomposition is exact for every driver, simplification level,
//! split setting, mode (sequential / parallel under every schedule and worker
//! count), and every individual step; saved terms sum to the original map.

use crate::decider::{hash_str, mix, Decider};
use crate::framework::*;
use crate::gatesim::{self, HCirc};
use crate::gen::{self, GSpec};
use crate::ring::Zw;
use crate::simcore::{with_sim, Caught, Core, CoreStats, StepObserver};
use crate::zxeval::{Dg, EvalErr, Val};
use quizx::decompose::*;
use quizx::graph::{BasisElem, GraphLike};
use quizx::scalar::Scalar4;
use quizx::verif::Snap;
use serde::{Deserialize, Serialize};
use serde_json::{json, Value};

#[derive(Clone, Debug, Serialize, Deserialize, PartialEq)]
pub enum Drv {
    BssT(bool),
    BssCats(bool),
    DynamicT,
    Sherlock([usize; 3]),
    SpiderCut,
}

impl Drv {
    fn name(&self) -> String {
        match self {
            Drv::BssT(r) => format!("BssT(random={r})"),
            Drv::BssCats(r) => format!("BssCats(random={r})"),
            Drv::DynamicT => "DynamicT".into(),
            Drv::Sherlock(t) => format!("Sherlock{:?}", t),
            Drv::SpiderCut => "SpiderCut".into(),
        }
    }
    fn kind(&self) -> &'static str {
        match self {
            Drv::BssT(_) => "BssT",
            Drv::BssCats(_) => "BssCats",
            Drv::DynamicT => "DynamicT",
            Drv::Sherlock(_) => "Sherlock",
            Drv::SpiderCut => "SpiderCut",
        }
    }
}

#[derive(Clone, Debug, Serialize, Deserialize, PartialEq)]
pub enum Hist {
    Decompose,
    UntilDepth(i64),
    Standard,
}

#[derive(Clone, Debug, Serialize, Deserialize, PartialEq)]
pub struct Cfg {
    pub driver: Drv,
    /// 0 none, 1 Clifford, 2 full
    pub simp: u8,
    pub split: bool,
    pub hist: Hist,
}

#[derive(Clone, Debug, Serialize, Deserialize, PartialEq)]
pub enum Kind {
    Closed,
    Saved,
    /// (decomposition kind, vertex tuple)
    OneStep(String, Vec<usize>),
    /// circuit and output bits: the diagram is ⟨bits|C|0…0⟩ built by quizx
    Circuit(HCirc, Vec<bool>),
}

#[derive(Clone, Debug, Serialize, Deserialize, PartialEq)]
pub struct Sc {
    pub g: GSpec,
    pub family: String,
    pub cfg: Cfg,
    pub hash_backend: bool,
    pub kind: Kind,
    /// closed-diagram runs: inside the same simulated execution (same thread, same worker pool) a
    /// sibling diagram - one T phase moved by pi/2 - is decomposed first with the same
    /// configuration and its result discarded; per-thread or per-worker state that survives a
    /// decomposition must not reach the next one
    #[serde(default)]
    pub warm: bool,
}

#[derive(Clone, Copy)]
pub struct C05;

const MAX_CLASSES: usize = 22;

struct StepObs {
    /// remaining budget in enumerated terms
    budget: u64,
}

fn pow2(c: usize) -> u64 {
    1u64 << c.min(62)
}

fn eval_any(d: &Dg, budget: &mut u64) -> Option<Vec<Val>> {
    let k = d.boundary().len();
    if k > 3 {
        return None;
    }
    let c = match d.cost_classes() {
        Ok(c) => c,
        Err(_) => return None,
    };
    // with boundaries the free classes shrink, so this over-estimates
    let cost = pow2(c) * (1u64 << k);
    if c > MAX_CLASSES || cost > *budget {
        return None;
    }
    *budget -= cost;
    match d.tensor(MAX_CLASSES) {
        Ok(t) => Some(t),
        Err(_) => None,
    }
}

fn vals_equal(a: &[Val], b: &[Val]) -> bool {
    a.len() == b.len() && a.iter().zip(b.iter()).all(|(x, y)| x.same(y, 1e-9))
}

fn show_vals(v: &[Val]) -> String {
    let s: Vec<String> = v.iter().take(4).map(|x| x.show()).collect();
    format!("[{}{}]", s.join(", "), if v.len() > 4 { ", …" } else { "" })
}

fn decomp_kind(decomp: &str) -> &str {
    decomp.split_whitespace().next().unwrap_or("?")
}

impl StepObserver for StepObs {
    fn decomp_step(&mut self, st: &mut CoreStats, depth: i64, g: &Snap, decomp: &str, terms: &[Snap]) {
        let kind = decomp_kind(decomp);
        st.probe(&format!("step.{}.{}terms", kind, terms.len()));
        if depth >= 3 {
            st.probe("step.depth_ge3");
        }
        if kind == "CatDecomp" {
            let nums: Vec<usize> = decomp
                .split(|c: char| !c.is_ascii_digit())
                .filter(|s| !s.is_empty())
                .filter_map(|s| s.parse().ok())
                .collect();
            if !nums.is_empty() {
                let legs = nums.len() - 1;
                st.probe(&format!("cat.legs{}", legs));
                if let Some(v) = g.verts.iter().find(|v| v.0 == nums[0]) {
                    if v.2 == 1 && v.3 == 1 {
                        st.probe("cat.pi_hub");
                    }
                }
                if legs == 3 || legs == 5 {
                    st.probe("cat.padded_to_even");
                }
            }
        }
        if kind == "TDecomp" {
            st.probe(&format!("tdecomp.{}terms", terms.len()));
        }
        let dg = Dg::from_snap(g);
        let mut budget = self.budget;
        let lhs = match eval_any(&dg, &mut budget) {
            Some(v) => v,
            None => {
                st.probe("step.unchecked_too_large");
                return;
            }
        };
        let mut sum: Vec<Val> = vec![Val::zero(); lhs.len()];
        for t in terms {
            let td = Dg::from_snap(t);
            match eval_any(&td, &mut budget) {
                Some(v) if v.len() == sum.len() => {
                    for (s, x) in sum.iter_mut().zip(v.iter()) {
                        *s = s.add(x);
                    }
                }
                _ => {
                    st.probe("step.unchecked_too_large");
                    return;
                }
            }
        }
        self.budget = budget;
        st.probe("step.checked");
        if !vals_equal(&lhs, &sum) {
            st.violations.push((
                "step_sum_mismatch".to_string(),
                format!(
                    "{} at depth {}: diagram denotes {} but its {} terms sum to {}",
                    decomp,
                    depth,
                    show_vals(&lhs),
                    terms.len(),
                    show_vals(&sum)
                ),
            ));
            st.probes.insert(format!("violation.kind.{kind}"), 1);
            if std::env::var("QSIM_DUMP_STEP").is_ok() {
                // debugging aid: the diagram the step was applied to
                eprintln!("QSIM_DUMP_STEP {decomp} depth {depth}");
                eprintln!("  verts (id, type, num/den): {:?}", g.verts.iter().map(|v| (v.0, format!("{:?}", v.1), v.2, v.3)).collect::<Vec<_>>());
                eprintln!("  edges: {:?}", g.edges.iter().map(|e| (e.0, e.1, format!("{:?}", e.2))).collect::<Vec<_>>());
                eprintln!("  scalar: {:?}", g.scalar);
                for (i, t) in terms.iter().enumerate() {
                    eprintln!("  term {i}: verts {:?}", t.verts.iter().map(|v| (v.0, v.2, v.3)).collect::<Vec<_>>());
                    eprintln!("  term {i}: edges {:?} scalar {:?}", t.edges.iter().map(|e| (e.0, e.1, format!("{:?}", e.2))).collect::<Vec<_>>(), t.scalar);
                }
            }
        }
    }

    fn split_step(&mut self, st: &mut CoreStats, depth: i64, g: &Snap, parts: &[Snap]) {
        st.probe(&format!("split.{}components", parts.len().min(5)));
        let dg = Dg::from_snap(g);
        if !dg.is_closed() {
            return;
        }
        let mut budget = self.budget;
        let lhs = match eval_any(&dg, &mut budget) {
            Some(v) => v,
            None => {
                st.probe("split.unchecked_too_large");
                return;
            }
        };
        let mut prod = Val::one();
        for p in parts {
            let pd = Dg::from_snap(p);
            match eval_any(&pd, &mut budget) {
                Some(v) if v.len() == 1 => prod = prod.mul(&v[0]),
                _ => {
                    st.probe("split.unchecked_too_large");
                    return;
                }
            }
        }
        self.budget = budget;
        st.probe("split.checked");
        if !lhs[0].same(&prod, 1e-9) {
            st.violations.push((
                "split_product_mismatch".to_string(),
                format!(
                    "component split at depth {}: diagram denotes {} but its {} components multiply to {}",
                    depth,
                    lhs[0].show(),
                    parts.len(),
                    prod.show()
                ),
            ));
        }
    }
}

struct ExecOut<G> {
    scalar: Option<Scalar4>,
    done: Vec<G>,
}

fn run_with<G: GraphLike, D: Driver>(g: &G, cfg: &Cfg, d: &D, parallel: bool, save: bool) -> ExecOut<G> {
    let mut dec = Decomposer::new(g);
    dec.with_simp(match cfg.simp {
        0 => SimpFunc::NoSimp,
        1 => SimpFunc::CliffordSimp,
        _ => SimpFunc::FullSimp,
    });
    dec.with_split_graphs_components(cfg.split);
    dec.with_save(save);
    match cfg.hist {
        Hist::Decompose => {
            if parallel {
                dec.decompose_parallel(d);
            } else {
                dec.decompose(d);
            }
        }
        Hist::UntilDepth(k) => {
            dec.decompose_until_depth(k, d);
            if parallel {
                dec.decompose_parallel(d);
            } else {
                dec.decompose(d);
            }
        }
        Hist::Standard => {
            dec.decompose_standard();
        }
    }
    ExecOut { scalar: Some(dec.scalar()), done: dec.done.clone() }
}

fn run_cfg<G: GraphLike>(g: &G, cfg: &Cfg, parallel: bool, save: bool) -> ExecOut<G> {
    match &cfg.driver {
        Drv::BssT(r) => run_with(g, cfg, &BssTOnlyDriver { random_t: *r }, parallel, save),
        Drv::BssCats(r) => run_with(g, cfg, &BssWithCatsDriver { random_t: *r }, parallel, save),
        Drv::DynamicT => run_with(g, cfg, &DynamicTDriver, parallel, save),
        Drv::Sherlock(t) => run_with(g, cfg, &SherlockDriver { tries: t.to_vec() }, parallel, save),
        Drv::SpiderCut => run_with(g, cfg, &SpiderCuttingDriver, parallel, save),
    }
}

fn mk_decomp(kind: &str, verts: &[usize]) -> Decomp {
    let v = verts.to_vec();
    match kind {
        "Cat" => Decomp::CatDecomp(v),
        "Magic5" => Decomp::Magic5FromCat(v),
        "T" => Decomp::TDecomp(v),
        "Bss" => Decomp::BssDecomp(v),
        "Sym" => Decomp::SymDecomp(v),
        "Single" => Decomp::SingleDecomp(v),
        "TPair" => Decomp::TPairDecomp(v),
        _ => Decomp::SpiderCuttingDecomp(v),
    }
}

fn fold_stats(out: &mut RunOut, st: &CoreStats, tag: &str) {
    out.steps += st.decomp_steps + st.split_steps;
    out.count(&format!("{tag}.decomp_steps"), st.decomp_steps);
    out.count("ambient_rng_draws", st.rng_draws);
    out.count("hash_keys", st.hash_keys);
    out.count("fork_join_regions", st.regions);
    out.count("fork_join_tasks", st.tasks);
    out.count("regions_with_ge2_tasks", st.regions_ge2);
    out.count("non_identity_orders", st.non_identity_orders);
    out.count("pool_preemptions", st.preemptions);
    out.count("sync_points_atomic_or_lock", st.sync_points);
    if st.preemptions > 0 {
        out.probe("pool_run_with_preemption");
    }
    for (k, v) in &st.probes {
        *out.probes.entry(k.clone()).or_insert(0) += v;
    }
    if st.max_nesting >= 3 {
        out.probe("nested_regions_depth_ge3");
    }
    if st.workers_used.len() >= 2 {
        out.probe("tasks_on_ge2_workers");
    }
    out.ev(st.decomp_steps);
    out.ev(st.rng_draws);
    out.ev(st.regions);
    out.ev(st.schedule_digest);
    out.ev(st.hash_digest);
}

fn scalar_digest(s: &Scalar4) -> u64 {
    let raw = quizx::verif::scalar_raw(s);
    let mut h = 0x99u64;
    for r in raw.iter() {
        h = mix(h, r.val);
        h = mix(h, (r.exp as i64 as u64) ^ ((r.sign as u64) << 63) ^ ((r.approx as u64) << 62));
    }
    h
}

impl C05 {
    fn exec<G: GraphLike>(&self, sc: &Sc, exec: Decider, out: &mut RunOut) -> Decider {
        let mut dec = exec;
        // sticky randomness in one run of twelve (see Decider::sticky): the random drivers meet
        // streaks of equal draws
        if dec.coin("rng.mode", 1, 12) {
            dec.sticky = 1 + dec.choose("rng.mem", 3) as u8;
            out.probe("sticky_randomness");
        }
        // ---- build the diagram and the expected value ------------------------------
        let (g, expected): (G, Option<Vec<Val>>) = match &sc.kind {
            Kind::Circuit(c, bits) => {
                let qc = gen::to_quizx_circuit(c);
                let mut g: G = qc.to_graph();
                g.plug_inputs(&vec![BasisElem::Z0; c.n]);
                g.plug_outputs(
                    &bits
                        .iter()
                        .map(|&b| if b { BasisElem::Z1 } else { BasisElem::Z0 })
                        .collect::<Vec<_>>(),
                );
                let dg = Dg::of(&g);
                let a = match dg.cost_classes() {
                    Ok(cl) if cl <= MAX_CLASSES => dg.eval(&[], MAX_CLASSES).ok(),
                    _ => None,
                };
                // oracle B: ⟨bits|C|0⟩
                let st = gatesim::run_on_basis::<Zw>(c, 0).expect("exact circuit");
                let b = Val::Exact(st[gatesim::idx_of(bits)].clone());
                if let Some(av) = &a {
                    out.probe("circuit.value_by_both_oracles");
                    if !av.same(&b, 1e-9) {
                        out.violations.push(
                            Violation::new(
                                "plugged_circuit_diagram_vs_gate_simulator",
                                format!(
                                    "diagram of <{}|C|0> denotes {} but the gate simulator gives {}",
                                    gatesim::bits_of(gatesim::idx_of(bits), c.n),
                                    av.show(),
                                    b.show()
                                ),
                            ),
                        );
                    }
                } else {
                    out.probe("circuit.value_by_gate_simulator_only");
                }
                (g, Some(vec![a.unwrap_or(b)]))
            }
            _ => {
                let g: G = sc.g.build();
                let dg = sc.g.to_dg();
                let e = match dg.tensor(MAX_CLASSES) {
                    Ok(t) => Some(t),
                    Err(EvalErr::TooLarge(_)) => None,
                    Err(EvalErr::Unsupported(why)) => panic!("generator produced an unsupported diagram: {why}"),
                };
                // the graph quizx built must be the diagram the harness specified
                let built = Dg::of(&g);
                if built.verts.len() != dg.verts.len() || built.edges.len() != dg.edges.len() || built.scalar != dg.scalar {
                    out.violations.push(Violation::new(
                        "built_graph_differs_from_spec",
                        format!(
                            "graph API built {} vertices / {} edges / scalar {:?}; spec has {} / {} / {:?}",
                            built.verts.len(), built.edges.len(), built.scalar, dg.verts.len(), dg.edges.len(), dg.scalar
                        ),
                    ));
                }
                (g, e)
            }
        };
        let expected = match expected {
            Some(e) => e,
            None => {
                out.probe("expected_value_too_large_skipped");
                return dec;
            }
        };
        let tcount = g.tcount();
        out.ev(tcount as u64);

        match &sc.kind {
            Kind::OneStep(kind, verts) => {
                let ids: Vec<usize> = verts.iter().map(|&i| sc.g.built_id(i)).collect();
                let d = mk_decomp(kind, &ids);
                let g2 = g.clone();
                let core = Core::new(dec, 1);
                let (res, core) = with_sim(core, move || verif_apply_decomp(&g2, &d));
                dec = core.dec;
                out.steps += 1;
                match res {
                    Caught::Ok(terms) => {
                        out.probe(&format!("onestep.{}.{}terms", kind, terms.len()));
                        let mut sum = vec![Val::zero(); expected.len()];
                        let mut ok = true;
                        for t in &terms {
                            match Dg::of(t).tensor(MAX_CLASSES + 2) {
                                Ok(v) if v.len() == sum.len() => {
                                    for (s, x) in sum.iter_mut().zip(v.iter()) {
                                        *s = s.add(x);
                                    }
                                }
                                _ => {
                                    ok = false;
                                    break;
                                }
                            }
                        }
                        if !ok {
                            out.probe("onestep.unchecked_too_large");
                        } else {
                            for s in &sum {
                                let (a, b) = s.to_c64();
                                out.ev(a.to_bits() ^ b.to_bits().rotate_left(17));
                            }
                            if !vals_equal(&expected, &sum) {
                                out.violations.push(
                                    Violation::new(
                                        "one_step_sum_mismatch",
                                        format!(
                                            "{}{:?}: diagram denotes {} but the {} replacement terms sum to {}",
                                            kind, verts, show_vals(&expected), terms.len(), show_vals(&sum)
                                        ),
                                    )
                                    .with("decomp", kind.clone()),
                                );
                            }
                            out.nontrivial = sc.g.verts.len() > verts.len();
                        }
                    }
                    Caught::Panic(m) => {
                        out.violations.push(
                            Violation::new("panic", format!("apply_decomp {}{:?}: {m}", kind, verts))
                                .with("where", format!("one_step.{kind}"))
                                .with("msg", super::c18::norm_msg(&m)),
                        );
                    }
                    Caught::Budget => out.inconclusive = true,
                }
                return dec;
            }
            Kind::Saved => {
                let mut core = Core::new(dec, 1);
                core.want_steps = true;
                core.observer = Some(Box::new(StepObs { budget: 1 << 22 }));
                core.step_budget = 400_000;
                let g2 = g.clone();
                let cfg = sc.cfg.clone();
                let (res, core) = with_sim(core, move || run_cfg(&g2, &cfg, false, true));
                fold_stats(out, &core.stats, "saved");
                let st = core.stats.clone();
                dec = core.dec;
                self.collect_step_violations(sc, &st, out);
                match res {
                    Caught::Ok(r) => {
                        out.count("saved_terms", r.done.len() as u64);
                        if matches!(sc.cfg.hist, Hist::UntilDepth(_)) {
                            out.probe("saved.two_stage_history");
                        }
                        let mut sum = vec![Val::zero(); expected.len()];
                        let mut ok = true;
                        for (j, t) in r.done.iter().enumerate() {
                            if t.tcount() != 0 {
                                out.violations.push(Violation::new(
                                    "saved_term_not_clifford",
                                    format!("saved term {j} has T-count {}", t.tcount()),
                                ));
                            }
                            match Dg::of(t).tensor(MAX_CLASSES + 2) {
                                Ok(v) if v.len() == sum.len() => {
                                    for (s, x) in sum.iter_mut().zip(v.iter()) {
                                        *s = s.add(x);
                                    }
                                }
                                Ok(v) => {
                                    out.violations.push(Violation::new(
                                        "saved_term_arity",
                                        format!("saved term {j} has {} tensor entries, original {}", v.len(), sum.len()),
                                    ));
                                    ok = false;
                                    break;
                                }
                                Err(_) => {
                                    ok = false;
                                    out.probe("saved.unchecked_too_large");
                                    break;
                                }
                            }
                        }
                        if ok {
                            for s in &sum {
                                let (a, b) = s.to_c64();
                                out.ev(a.to_bits() ^ b.to_bits().rotate_left(17));
                            }
                            if !vals_equal(&expected, &sum) {
                                out.violations.push(
                                    Violation::new(
                                        "saved_terms_sum_mismatch",
                                        format!(
                                            "{} saved Clifford terms sum to {} but the diagram denotes {}",
                                            r.done.len(), show_vals(&sum), show_vals(&expected)
                                        ),
                                    )
                                    .with("driver", sc.cfg.driver.kind()),
                                );
                            }
                            out.nontrivial = tcount >= 1 && st.decomp_steps >= 1 && r.done.len() >= 2;
                        }
                    }
                    Caught::Panic(m) => self.panic_violation(sc, &m, "saved", out),
                    Caught::Budget => out.inconclusive = true,
                }
                return dec;
            }
            _ => {}
        }

        // ---- closed diagram: sequential, then parallel under two schedules ----------
        let exp = &expected[0];
        let mut results: Vec<(String, Scalar4)> = vec![];
        let w1 = 1 + dec.choose("W1", 16);
        let w2 = 1 + dec.choose("W2", 16);
        let modes: Vec<(&str, bool, usize)> = if sc.cfg.hist == Hist::Standard {
            vec![("seq", false, 1)]
        } else {
            vec![("seq", false, 1), ("par1", true, w1), ("par2", true, w2)]
        };
        let mut any_steps = false;
        let mut any_region2 = false;
        for (tag, parallel, w) in modes {
            let mut core = Core::new(dec, w);
            core.want_steps = true;
            // observe every step of the sequential run and of the first parallel run
            core.observer = if tag != "par2" { Some(Box::new(StepObs { budget: 1 << 21 })) } else { None };
            if tag == "par2" && core.dec.coin("pool", 1, 3) {
                // second parallel execution: the simulated worker pool (W real threads, one
                // running at a time, decider-chosen switches at task boundaries and seams)
                // (small pools mostly: interleavings need few workers, threads cost time; the
                // full 1..16 range is covered by the sequentialised model and now and then here)
                let wp = match core.dec.choose("poolW.kind", 16) {
                    0 => w.max(2),
                    1 => 2 + core.dec.choose("poolW.big", 15),
                    2..=4 => 3 + core.dec.choose("poolW", 2),
                    _ => 2,
                };
                core.workers = wp;
                core.pool_workers = wp;
                core.preempt_16 = *core.dec.pick("preempt", &[0usize, 2, 4, 8, 16]);
            }
            core.step_budget = 400_000;
            core.draw_budget = 50_000_000;
            let wdesc = if core.pool_workers > 0 {
                out.probe("execution.simulated_worker_pool");
                format!("simulated pool of {} worker threads, preemption {}/16", core.pool_workers, core.preempt_16)
            } else if parallel {
                out.probe("execution.sequentialised_fork_join");
                format!("sequentialised fork-join, W={}", core.workers)
            } else {
                "sequential".to_string()
            };
            let g2 = g.clone();
            let cfg = sc.cfg.clone();
            let warm_g: Option<G> = if sc.warm {
                let mut w = sc.g.clone();
                if let Some(v) = w.verts.iter_mut().find(|v| v.0 != 0 && v.2 == 4) {
                    v.1 = (v.1 + 2).rem_euclid(8);
                }
                out.probe("warm_up_decomposition_before");
                Some(w.build())
            } else {
                None
            };
            let (res, core) = with_sim(core, move || {
                if let Some(w) = &warm_g {
                    let _ = run_cfg(w, &cfg, parallel, false);
                }
                run_cfg(&g2, &cfg, parallel, false)
            });
            fold_stats(out, &core.stats, tag);
            let st = core.stats.clone();
            dec = core.dec;
            out.distinct.insert(format!("schedule.{tag}"), st.schedule_digest);
            if st.hash_keys > 0 {
                out.distinct.insert(format!("hash_order.{tag}"), st.hash_digest);
            }
            self.collect_step_violations(sc, &st, out);
            if st.decomp_steps >= 1 {
                any_steps = true;
            }
            if parallel && st.regions_ge2 >= 1 {
                any_region2 = true;
            }
            match res {
                Caught::Ok(r) => {
                    let s = r.scalar.unwrap();
                    out.ev(scalar_digest(&s));
                    let (z, approx) = Zw::from_scalar(&s);
                    let got = if approx {
                        out.probe("result_scalar_flagged_approx");
                        let (a, b) = z.to_c64();
                        Val::Float(a, b)
                    } else {
                        Val::Exact(z)
                    };
                    if !got.same(exp, 1e-9) {
                        out.violations.push(
                            Violation::new(
                                "wrong_scalar",
                                format!(
                                    "{} mode ({}), driver {}, simp {}, split {}, {:?}: decomposer returned {} but the diagram denotes {}",
                                    tag, wdesc, sc.cfg.driver.name(), sc.cfg.simp, sc.cfg.split, sc.cfg.hist, got.show(), exp.show()
                                ),
                            )
                            .with("mode", if parallel { "parallel" } else { "sequential" })
                            .with("driver", sc.cfg.driver.kind()),
                        );
                    }
                    results.push((tag.to_string(), s));
                }
                Caught::Panic(m) => self.panic_violation(sc, &m, tag, out),
                Caught::Budget => {
                    out.inconclusive = true;
                    return dec;
                }
            }
        }
        // oracle-free twin: sequential == parallel, value for value
        if results.len() >= 2 {
            let (z0, _) = Zw::from_scalar(&results[0].1);
            for (tag, s) in &results[1..] {
                let (z, _) = Zw::from_scalar(s);
                if z != z0 {
                    out.violations.push(
                        Violation::new(
                            "parallel_differs_from_sequential",
                            format!("sequential returned {} but {} returned {}", z0.show(), tag, z.show()),
                        )
                        .with("driver", sc.cfg.driver.kind()),
                    );
                }
            }
        }
        out.nontrivial = tcount >= 1 && any_steps && (any_region2 || sc.cfg.hist == Hist::Standard);
        dec
    }

    fn collect_step_violations(&self, sc: &Sc, st: &CoreStats, out: &mut RunOut) {
        for (class, detail) in &st.violations {
            let kind = detail.split_whitespace().next().unwrap_or("?").to_string();
            let mut v = Violation::new(class, detail.clone()).with("driver", sc.cfg.driver.kind());
            if class == "step_sum_mismatch" {
                v = v.with("decomp", kind);
            }
            if !out.violations.iter().any(|x| x.key() == v.key()) {
                out.violations.push(v);
            }
        }
    }

    fn panic_violation(&self, sc: &Sc, m: &str, tag: &str, out: &mut RunOut) {
        let v = Violation::new(
            "panic",
            format!(
                "{} mode, driver {}, simp {}, split {}, {:?}: {}",
                tag, sc.cfg.driver.name(), sc.cfg.simp, sc.cfg.split, sc.cfg.hist, m
            ),
        )
        .with("driver", sc.cfg.driver.kind())
        .with("simp", sc.cfg.simp.to_string())
        .with("msg", super::c18::norm_msg(m));
        if !out.violations.iter().any(|x| x.key() == v.key()) {
            out.violations.push(v);
        }
    }
}

fn gen_cfg(d: &mut Decider, need_simp: bool) -> Cfg {
    let driver = match d.choose("drv", 9) {
        0 => Drv::BssT(false),
        1 => Drv::BssT(true),
        2 => Drv::BssCats(false),
        3 => Drv::BssCats(true),
        4 | 5 => Drv::DynamicT,
        6 | 7 => Drv::Sherlock([
            1 + d.choose("sh0", 4),
            d.choose("sh1", 5),
            d.choose("sh2", 5),
        ]),
        _ => Drv::SpiderCut,
    };
    let simp = if need_simp { 1 + d.choose("simp", 2) as u8 } else { d.choose("simp", 3) as u8 };
    let hist = match d.choose("hist", 8) {
        0 => Hist::UntilDepth(d.range("depth", 0, 3)),
        1 => Hist::Standard,
        _ => Hist::Decompose,
    };
    Cfg { driver, simp, split: d.coin("split", 1, 2), hist }
}

impl Property for C05 {
    type Sc = Sc;
    fn id(&self) -> &'static str {
        "C05"
    }
    fn level(&self) -> &'static str {
        "exploration"
    }
    fn rule(&self) -> String {
        "decider builds a closed graph-like Clifford+T diagram (Erdos-Renyi, planted cats with 0/pi hub, phase gadgets sharing neighbourhoods, planted T-pair shape, isolated T spiders, disjoint unions; or <b|C|0..0> of a random Clifford+T(+CCZ) circuit), a configuration (driver x simp level x split x history) and then, while the run proceeds, every ambient RNG draw of the random drivers, every hash key of the dynamic-T driver, and for the parallel executions the worker count W in 1..16, the order of the tasks of every fork-join region and their workers. Each scenario is executed sequentially and in parallel under two schedules. Oracle: exact Z[omega] evaluator of the closed diagram; per-step conservation (sum of terms = diagram, product of components = diagram); sequential/parallel twin. A quarter of the closed-diagram runs decompose a sibling diagram (one T phase moved) first, inside the same simulated execution (same thread, same worker pool), and discard its result. The saved-terms sub-batch runs the two-stage history (decompose_until_depth(1..4), then decompose) in half of its runs. Non-trivial: T-count >= 1, >= 1 decomposition step, and a fork-join region with >= 2 tasks in a parallel execution. Distinct by (scenario digest, event digest incl. decision trace, schedules and results). Sub-batches saved (open diagrams, saved Clifford terms summed) and one_step (apply_decomp on embedded sites).".into()
    }
    fn assumptions(&self) -> Vec<String> {
        vec![
            "fork-join tasks are data-independent (no interior mutability, atomics, locks or unsafe in quizx/src; audited syntactically by every run), so whole-task schedules x worker assignment is the complete schedule space".into(),
            "the harness's ZX evaluator and ring arithmetic (self-tested against the gate simulator and ring laws) are correct".into(),
            "bounds: <= 14 spiders / <= 10 T (quick), <= 14 T (thorough), circuits <= 4 qubits; nothing is claimed beyond".into(),
            "Sherlock driver with tries[0] >= 1 (an empty candidate list is outside 'well-formed configuration')".into(),
        ]
    }
    fn real_vs_stub(&self) -> Value {
        json!({"real": ["Decomposer (all entry points)", "all five drivers", "every replace_* constructor", "simplify.rs (clifford_simp/full_simp between steps)", "both graph backends", "Scalar4 arithmetic", "rand algorithms consuming the entropy (random_range, shuffle, choose_multiple)"], "stubbed": ["rayon's scheduler: replaced by two decider-driven models: the sequentialised fork-join model of DESIGN §2.3 (whole tasks in decider order on one thread) and the simulated worker pool of §9.8 (W real OS threads, one running at a time, decider-chosen switches at task start/end and at seams)", "entropy behind rand::rng(): decider draws", "RandomState keys of the dynamic-T driver's maps: decider draws"]})
    }
    fn sub_batches(&self) -> Vec<SubBatch> {
        vec![
            SubBatch { name: "closed", quick: 50_000, thorough: 3_000_000 },
            SubBatch { name: "circuit", quick: 6_000, thorough: 300_000 },
            SubBatch { name: "saved", quick: 12_000, thorough: 600_000 },
            SubBatch { name: "one_step", quick: 25_000, thorough: 1_200_000 },
        ]
    }
    fn expected_probes(&self) -> Vec<&'static str> {
        vec![
            "step.checked",
            "split.checked",
            "cat.legs3",
            "cat.legs4",
            "cat.legs5",
            "cat.legs6",
            "cat.pi_hub",
            "step.TPairDecomp.2terms",
            "step.Magic5FromCat.3terms",
            "step.TDecomp.7terms",
            "step.SingleDecomp.2terms",
            "step.SpiderCuttingDecomp.2terms",
            "split.3components",
            "nested_regions_depth_ge3",
            "tasks_on_ge2_workers",
            "execution.simulated_worker_pool",
            "pool_run_with_preemption",
        ]
    }

    fn generate(&self, d: &mut Decider, tier: Tier, sub: &str) -> Sc {
        let tmax = match tier {
            Tier::Quick => 10,
            Tier::Thorough => 14,
        };
        let hash_backend = d.coin("backend", 1, 6);
        match sub {
            "circuit" => {
                let n = 2 + d.choose("c.n", 3);
                let ng = 8 + d.choose("c.ng", 40);
                let mix = gen::GateMix {
                    clifford_t_only: true,
                    allow_swap: false,
                    allow_ccz: true,
                    allow_xcx: false,
                    allow_rx: true,
                    max_den: 4,
                };
                let mut c = gen::random_circuit(d, n, ng, mix, tmax.min(10));
                // Hadamard layers at both ends and sprinkled inside, so that the T gates
                // do not act on computational basis states only
                for q in 0..n {
                    if d.coin("c.h0", 3, 4) {
                        c.gates.insert(0, gatesim::HGate { k: gatesim::GK::H, qs: vec![q] });
                    }
                    if d.coin("c.h1", 1, 2) {
                        c.gates.push(gatesim::HGate { k: gatesim::GK::H, qs: vec![q] });
                    }
                }
                let extra = d.choose("c.hx", 6);
                for _ in 0..extra {
                    let pos = d.choose("c.hpos", c.gates.len() + 1);
                    let q = d.choose("c.hq", n);
                    c.gates.insert(pos, gatesim::HGate { k: gatesim::GK::H, qs: vec![q] });
                }
                // mostly a bit string with non-zero amplitude (by oracle B), so that the
                // plugged diagram does not collapse to the zero scalar at once
                let mut bits: Vec<bool> = (0..n).map(|_| d.coin("c.bit", 1, 2)).collect();
                if d.coin("c.nonzero", 4, 5) {
                    let st = gatesim::run_on_basis::<Zw>(&c, 0).expect("exact circuit");
                    let nz: Vec<usize> = (0..st.len()).filter(|&i| !st[i].is_zero()).collect();
                    let i = nz[d.choose("c.nzi", nz.len())];
                    bits = (0..n).map(|q| (i >> q) & 1 == 1).collect();
                }
                Sc {
                    g: GSpec::empty(),
                    family: "circuit".into(),
                    cfg: gen_cfg(d, true),
                    hash_backend,
                    kind: Kind::Circuit(c, bits),
                    warm: false,
                }
            }
            "saved" => {
                let (mut g, fam) = gen::closed_diagram(d, 10, tmax.min(8));
                let k = 1 + d.choose("s.out", 3);
                let mut cand: Vec<usize> = (0..g.verts.len()).collect();
                for _ in 0..k {
                    if cand.is_empty() {
                        break;
                    }
                    let v = cand.swap_remove(d.choose("s.v", cand.len()));
                    let b = g.add(0, 0, 1);
                    g.edges.push((v, b, d.coin("s.h", 1, 3)));
                    g.outputs.push(b);
                }
                let driver = match d.choose("s.drv", 4) {
                    0 => Drv::BssT(false),
                    1 => Drv::BssT(true),
                    2 => Drv::BssCats(false),
                    _ => Drv::BssCats(true),
                };
                Sc {
                    g,
                    family: fam.into(),
                    // the two-stage history (stop at a depth, then resume) in half of the runs: terms
                    // that become Clifford during the first stage must still be on the list at the end
                    cfg: Cfg { driver, simp: d.choose("s.simp", 3) as u8, split: false, hist: if d.coin("s.hist", 1, 2) { Hist::UntilDepth(1 + d.choose("s.depth", 4) as i64) } else { Hist::Decompose } },
                    hash_backend,
                    kind: Kind::Saved,
                    warm: false,
                }
            }
            "one_step" => {
                let which = d.choose("o.kind", 10);
                let (mut g, kind, verts): (GSpec, &str, Vec<usize>) = match which {
                    0..=2 => {
                        let g = gen::fam_cat(d, 12);
                        let legs = g.neighbours(0);
                        let p = d.permutation("o.perm", legs.len());
                        let mut v = vec![0];
                        v.extend(p.iter().map(|&i| legs[i]));
                        (g, "Cat", v)
                    }
                    3 => {
                        let g = gen::fam_tpair(d, 8);
                        let mids: Vec<usize> = (0..g.verts.len())
                            .filter(|&x| x >= 2 && g.degree(x) == 2 && g.has_edge(x, 0) && g.has_edge(x, 1) && g.verts[x].2 == 4)
                            .collect();
                        let mut v = mids;
                        v.extend([0, 1]);
                        (g, "TPair", v)
                    }
                    4 => {
                        let g = gen::fam_er(d, 10, 10);
                        let v = d.choose("o.v", g.verts.len());
                        (g, "SpiderCut", vec![v])
                    }
                    _ => {
                        // needs k distinct T spiders
                        let (kind, k) = *d.pick(
                            "o.tk",
                            &[("Magic5", 5), ("Bss", 6), ("Sym", 2), ("Single", 1), ("T", 1), ("T", 2), ("T", 3), ("T", 4), ("T", 5), ("T", 6)],
                        );
                        let mut g = gen::fam_er(d, 12, 12);
                        let mut ts: Vec<usize> = (0..g.verts.len()).filter(|&x| g.verts[x].2 == 4).collect();
                        while ts.len() < k {
                            let ph = *d.pick("o.ph", &[1, 3, 5, 7]);
                            let v = g.z(ph);
                            for u in 0..v {
                                if d.coin("o.e", 1, 3) {
                                    g.h(u, v);
                                }
                            }
                            ts.push(v);
                        }
                        let p = d.permutation("o.tperm", ts.len());
                        let v: Vec<usize> = p.iter().take(k).map(|&i| ts[i]).collect();
                        (g, kind, v)
                    }
                };
                // optionally open the host: outputs on vertices outside the site
                if d.coin("o.open", 1, 3) {
                    let mut cand: Vec<usize> = (0..g.verts.len()).filter(|x| !verts.contains(x)).collect();
                    let k = 1 + d.choose("o.nout", 2);
                    for _ in 0..k {
                        if cand.is_empty() {
                            break;
                        }
                        let v = cand.swap_remove(d.choose("o.ov", cand.len()));
                        let b = g.add(0, 0, 1);
                        g.edges.push((v, b, d.coin("o.oh", 1, 3)));
                        g.outputs.push(b);
                    }
                }
                if d.coin("o.holes", 1, 4) {
                    g.holes = (0..g.verts.len()).map(|_| if d.coin("o.hole", 1, 3) { 1 + d.choose("o.hole.k", 2) as u8 } else { 0 }).collect();
                }
                Sc {
                    g,
                    family: "site".into(),
                    cfg: Cfg { driver: Drv::BssT(false), simp: 0, split: false, hist: Hist::Decompose },
                    hash_backend,
                    kind: Kind::OneStep(kind.to_string(), verts),
                    warm: false,
                }
            }
            _ => {
                let (g, fam) = gen::closed_diagram(d, 14, tmax);
                let mut cfg = gen_cfg(d, false);
                if fam == "pi_cats" && d.coin("pc.cfg", 2, 3) {
                    // the configuration under which intermediate diagrams stay as the decompositions
                    // leave them: Sherlock with magic-5 candidates, no inter-step simplification
                    cfg.driver = Drv::Sherlock([1 + d.choose("pc.t0", 3), 1 + d.choose("pc.t1", 3), d.choose("pc.t2", 4)]);
                    cfg.simp = 0;
                    cfg.hist = Hist::Decompose;
                }
                Sc { g, family: fam.into(), cfg, hash_backend, kind: Kind::Closed, warm: d.coin("warm", 1, 4) }
            }
        }
    }

    fn execute(&self, sc: &Sc, _sub: &str, exec: Decider, _env: &Env) -> RunOut {
        let mut out = RunOut { engine: "native", ..Default::default() };
        out.scenario_digest = hash_str(&serde_json::to_string(sc).unwrap());
        out.probe(&format!("family.{}", sc.family));
        out.probe(&format!("driver.{}", sc.cfg.driver.kind()));
        let dec = if sc.hash_backend {
            self.exec::<quizx::hash_graph::Graph>(sc, exec, &mut out)
        } else {
            self.exec::<quizx::vec_graph::Graph>(sc, exec, &mut out)
        };
        out.ev(dec.digest);
        out.exec_trace = dec.values();
        for v in &out.violations {
            out.event_digest = mix(out.event_digest, hash_str(&v.key()));
        }
        out.sample = Some(json!({"scenario": sc, "decisions": out.exec_trace.len(), "steps": out.steps}));
        out
    }

    fn shrink(&self, sc: &Sc) -> Vec<Sc> {
        let mut c = vec![];
        if sc.warm {
            c.push(Sc { warm: false, ..sc.clone() });
        }
        if let Kind::Circuit(circ, bits) = &sc.kind {
            for i in 0..circ.gates.len() {
                let mut cc = circ.clone();
                cc.gates.remove(i);
                c.push(Sc { kind: Kind::Circuit(cc, bits.clone()), ..sc.clone() });
            }
        } else {
            let site: Vec<usize> = match &sc.kind {
                Kind::OneStep(_, v) => v.clone(),
                _ => vec![],
            };
            // drop vertices not in the site (renumber the site)
            for v in (0..sc.g.verts.len()).rev() {
                if site.contains(&v) {
                    continue;
                }
                let g = sc.g.without_vertex(v);
                let kind = match &sc.kind {
                    Kind::OneStep(k, vs) => Kind::OneStep(k.clone(), vs.iter().map(|&x| if x > v { x - 1 } else { x }).collect()),
                    k => k.clone(),
                };
                c.push(Sc { g, kind, ..sc.clone() });
            }
            // drop edges (not for planted sites, whose preconditions need them)
            if site.is_empty() {
                for i in 0..sc.g.edges.len() {
                    let (a, b, _) = sc.g.edges[i];
                    if sc.g.verts[a].0 == 0 || sc.g.verts[b].0 == 0 {
                        continue;
                    }
                    let mut g = sc.g.clone();
                    g.edges.remove(i);
                    c.push(Sc { g, ..sc.clone() });
                }
                // lower phases
                for v in 0..sc.g.verts.len() {
                    if sc.g.verts[v].0 == 1 && sc.g.verts[v].1 != 0 {
                        let mut g = sc.g.clone();
                        if g.verts[v].2 == 4 && g.verts[v].1 != 1 {
                            g.verts[v].1 = 1;
                        } else if g.verts[v].2 != 4 {
                            g.verts[v].1 = 0;
                            g.verts[v].2 = 1;
                        } else {
                            continue;
                        }
                        c.push(Sc { g, ..sc.clone() });
                    }
                }
            }
            if sc.g.sqrt2_pow != 0 || sc.g.omega_pow != 0 {
                let mut g = sc.g.clone();
                g.sqrt2_pow = 0;
                g.omega_pow = 0;
                c.push(Sc { g, ..sc.clone() });
            }
        }
        // simpler configuration
        if sc.cfg.hist != Hist::Decompose {
            c.push(Sc { cfg: Cfg { hist: Hist::Decompose, ..sc.cfg.clone() }, ..sc.clone() });
        }
        if sc.cfg.split {
            c.push(Sc { cfg: Cfg { split: false, ..sc.cfg.clone() }, ..sc.clone() });
        }
        if sc.hash_backend {
            c.push(Sc { hash_backend: false, ..sc.clone() });
        }
        c
    }

    fn self_test(&self) -> Result<(), String> {
        crate::selftest::evaluator_vs_gate_simulator()?;
        crate::selftest::audit_no_shared_mutable_state()
    }

    fn extra_evidence(&self, _env: &Env, _tier: Tier) -> Value {
        // engine E2 (Miri) runs concurrently (started by bin/check); wait for its summary
        let mut e2 = json!({"ran": false, "why": "engine E2 not started (QSIM_E2_SUMMARY unset: qsim was run directly or with QSIM_NO_E2)"});
        if let Ok(path) = std::env::var("QSIM_E2_SUMMARY") {
            let pid = std::env::var("QSIM_E2_WAIT_PID").ok();
            let t0 = std::time::Instant::now();
            loop {
                if let Ok(txt) = std::fs::read_to_string(&path) {
                    if let Ok(v) = serde_json::from_str::<Value>(&txt) {
                        e2 = json!({"ran": true, "summary": v});
                        break;
                    }
                }
                let alive = pid.as_ref().map(|p| std::path::Path::new(&format!("/proc/{p}")).exists()).unwrap_or(false);
                if !alive || t0.elapsed().as_secs() > 4 * 3600 {
                    // one last look: the file is written just before the process exits
                    std::thread::sleep(std::time::Duration::from_millis(300));
                    if let Ok(txt) = std::fs::read_to_string(&path) {
                        if let Ok(v) = serde_json::from_str::<Value>(&txt) {
                            e2 = json!({"ran": true, "summary": v});
                            break;
                        }
                    }
                    e2 = json!({"ran": false, "why": "engine E2 ended without a summary (see the e2 output printed after the native engine)"});
                    break;
                }
                std::thread::sleep(std::time::Duration::from_millis(500));
            }
        }
        json!({"shared_state_audit": crate::selftest::audit_report(), "engine_e2_miri": e2})
    }
}
