//! C06 — `quizx sim` reports true Born-rule probabilities, expectations and
//! samples, independent of method and --parallel; malformed queries are errors.

use crate::cli::{self, CliResult, InFault, OutFault, Scratch};
use crate::decider::{hash_str, mix, Decider};
use crate::framework::*;
use crate::gatesim::{self, Amp, HCirc, HGate, Pauli, C64, GK};
use crate::gen::{self, GateMix};
use crate::ring::Zw;
use crate::simcore::CoreStats;
use serde::{Deserialize, Serialize};
use serde_json::{json, Value};

#[derive(Clone, Debug, Serialize, Deserialize, PartialEq)]
pub enum Query {
    Amp(String),
    Exp(String),
    Shots(usize),
    DefaultTask,
}

#[derive(Clone, Copy, Debug, Serialize, Deserialize, PartialEq)]
pub enum Method {
    Default,
    Cats,
    Bss,
}

#[derive(Clone, Debug, Serialize, Deserialize, PartialEq)]
pub enum Mode {
    /// in-process with seams installed, result through -o
    InProcess,
    /// the real binary, result on stdout, real RNG
    ChildStdout,
    /// the real binary with rayon's pool size fixed (RAYON_NUM_THREADS), result on stdout
    ChildThreads(usize),
    /// the real binary under I/O faults
    ChildFaults(InFault, OutFault),
    /// malformed argv tail (everything after the input file)
    Malformed(Vec<String>),
    /// the real binary under the system-call seam: short reads / writes, EINTR, errno failures at
    /// decider-chosen calls on the input file, the --out file or stdout
    ChildSys { plan: cli::SysPlan, to_stdout: bool },
}

#[derive(Clone, Debug, Serialize, Deserialize, PartialEq)]
pub struct Sc {
    pub circ: HCirc,
    pub query: Query,
    pub method: Method,
    pub parallel: Option<usize>,
    pub mode: Mode,
    /// what is at the --out path before the tool runs (cli::precreate): 0 nothing, 1 longer garbage,
    /// 2 a longer valid answer (sample lines of the right width, or a long number)
    #[serde(default)]
    pub pre: u8,
    /// in-process runs: an earlier `Cli::run` call in the same process and on the same thread,
    /// before the query under test (state that survives between invocations must not reach the
    /// answer): 0 none; 1 the same query on a sibling circuit (same gates and qubits, other
    /// rz/rx angles); 2 the same, with T/S gates replaced by their adjoints as well; 3 another
    /// circuit at the SAME path, which is then overwritten by the real one; 4 a failing call
    /// (query of the wrong length) first
    #[serde(default)]
    pub history: u8,
}

#[derive(Clone, Copy)]
pub struct C06;

/// The output state of one group of qubits that no multi-qubit gate connects to the rest.
struct Factor {
    /// global qubit numbers, ascending; local bit i is qubit qs[i]
    qs: Vec<usize>,
    probs: Vec<f64>,
    zero: Vec<bool>,
    amps: Vec<(f64, f64)>,
}

struct Truth {
    n: usize,
    /// the state is the tensor product of these (one factor for the ordinary sub-batches)
    factors: Vec<Factor>,
    /// full vectors; empty for wide registers (`wide`)
    probs: Vec<f64>,
    /// probability exactly zero (exact circuits) / below 1e-12 (float circuits)
    zero: Vec<bool>,
    wide: bool,
    exact: bool,
    /// some angle is stated as a plain number of radians: the reader converts it to a multiple
    /// of π in single precision, so the answer is only good to about 1e-6 per such gate
    decimal: bool,
}

fn factor_of(c: &HCirc, qs: Vec<usize>) -> Factor {
    // the sub-circuit on qs, relabelled
    let mut local = HCirc::new(qs.len());
    for g in &c.gates {
        if qs.contains(&g.qs[0]) {
            let l: Vec<usize> = g.qs.iter().map(|q| qs.iter().position(|x| x == q).expect("gate crosses factors")).collect();
            local.gates.push(HGate { k: g.k, qs: l });
        }
    }
    if c.is_exact() {
        let st = gatesim::run_on_basis::<Zw>(&local, 0).expect("exact");
        Factor {
            qs,
            probs: gatesim::probs(&st),
            zero: st.iter().map(|a| a.is_zero_exact()).collect(),
            amps: st.iter().map(|a| a.to_c64()).collect(),
        }
    } else {
        let st = gatesim::run_on_basis::<C64>(&local, 0).expect("float");
        let p = gatesim::probs(&st);
        Factor { qs, zero: p.iter().map(|&x| x < 1e-12).collect(), probs: p, amps: st.iter().map(|a| a.to_c64()).collect() }
    }
}

fn truth(c: &HCirc) -> Truth {
    let exact = c.is_exact();
    let decimal = c.has(|k| matches!(k, GK::RzMix(..) | GK::RxMix(..)));
    if c.n <= 12 {
        let f = factor_of(c, (0..c.n).collect());
        return Truth { n: c.n, probs: f.probs.clone(), zero: f.zero.clone(), factors: vec![f], wide: false, exact, decimal };
    }
    // wide register: groups of qubits connected by multi-qubit gates
    let mut comp: Vec<usize> = (0..c.n).collect();
    fn find(c: &mut Vec<usize>, x: usize) -> usize {
        if c[x] != x {
            let r = find(c, c[x]);
            c[x] = r;
        }
        c[x]
    }
    for g in &c.gates {
        for q in &g.qs[1..] {
            let (a, b) = (find(&mut comp, g.qs[0]), find(&mut comp, *q));
            comp[a] = b;
        }
    }
    let mut factors = vec![];
    for r in 0..c.n {
        let qs: Vec<usize> = (0..c.n).filter(|&q| find(&mut comp, q) == r).collect();
        if !qs.is_empty() {
            assert!(qs.len() <= 12, "wide circuit with a {}-qubit factor", qs.len());
            factors.push(factor_of(c, qs));
        }
    }
    Truth { n: c.n, factors, probs: vec![], zero: vec![], wide: true, exact, decimal }
}

impl Truth {
    fn local(f: &Factor, bits: &[bool]) -> usize {
        f.qs.iter().enumerate().map(|(i, &q)| (bits[q] as usize) << i).sum()
    }
    /// Born probability of a full bit string
    fn prob(&self, bits: &[bool]) -> f64 {
        self.factors.iter().map(|f| f.probs[Self::local(f, bits)]).product()
    }
    fn is_zero(&self, bits: &[bool]) -> bool {
        self.factors.iter().any(|f| f.zero[Self::local(f, bits)])
    }
    /// (P(prefix), P(prefix then 1)) restricted to the factor that holds the next qubit: the
    /// other factors cancel in the quotient
    fn next_bit(&self, prefix: &[bool]) -> (f64, f64) {
        let k = prefix.len();
        let f = self.factors.iter().find(|f| f.qs.contains(&k)).expect("qubit in no factor");
        let mut pp = 0.0;
        let mut p1 = 0.0;
        for (i, p) in f.probs.iter().enumerate() {
            let mut ok = true;
            let mut next_set = false;
            for (li, &q) in f.qs.iter().enumerate() {
                let b = (i >> li) & 1 == 1;
                if q < k && b != prefix[q] {
                    ok = false;
                    break;
                }
                if q == k {
                    next_set = b;
                }
            }
            if ok {
                pp += p;
                if next_set {
                    p1 += p;
                }
            }
        }
        (pp, p1)
    }
    /// is the prefix itself possible (every factor gives it non-negligible probability)?
    fn prefix_possible(&self, prefix: &[bool]) -> bool {
        let k = prefix.len();
        self.factors.iter().all(|f| {
            let s: f64 = f
                .probs
                .iter()
                .enumerate()
                .filter(|(i, _)| f.qs.iter().enumerate().all(|(li, &q)| q >= k || ((i >> li) & 1 == 1) == prefix[q]))
                .map(|(_, p)| *p)
                .sum();
            s > 1e-12
        })
    }
    fn expectation(&self, ps: &[Pauli]) -> f64 {
        self.factors
            .iter()
            .map(|f| {
                let st: Vec<C64> = f.amps.iter().map(|&(a, b)| C64(a, b)).collect();
                let lp: Vec<Pauli> = f.qs.iter().map(|&q| ps[q]).collect();
                gatesim::pauli_expectation(&st, &lp).0
            })
            .product()
    }
}

fn parse_paulis(s: &str) -> Option<Vec<Pauli>> {
    s.chars()
        .map(|c| match c.to_ascii_uppercase() {
            'I' => Some(Pauli::I),
            'X' => Some(Pauli::X),
            'Y' => Some(Pauli::Y),
            'Z' => Some(Pauli::Z),
            _ => None,
        })
        .collect()
}

/// What the CLI should answer: Ok(number) / Ok(lines) or a clean error.
enum Want {
    Number(f64),
    Samples(usize),
    Error,
}

fn want(t: &Truth, q: &Query) -> Want {
    match q {
        Query::Amp(s) => {
            let bits: Option<Vec<bool>> = s.chars().map(|c| match c { '0' => Some(false), '1' => Some(true), _ => None }).collect();
            let bits = match bits {
                Some(b) => b,
                None => return Want::Error,
            };
            let bits = if bits.len() == 1 { vec![bits[0]; t.n] } else if bits.len() == t.n { bits } else { return Want::Error };
            Want::Number(t.prob(&bits))
        }
        Query::Exp(s) => {
            let ps = match parse_paulis(s) {
                Some(p) => p,
                None => return Want::Error,
            };
            let ps = if ps.len() == 1 { vec![ps[0]; t.n] } else if ps.len() == t.n { ps } else { return Want::Error };
            Want::Number(t.expectation(&ps))
        }
        Query::Shots(k) => Want::Samples(*k),
        Query::DefaultTask => Want::Samples(1),
    }
}

fn argv_tail(sc: &Sc) -> Vec<String> {
    let mut a: Vec<String> = vec![];
    match &sc.query {
        Query::Amp(s) => {
            a.push("-a".into());
            a.push(s.clone());
        }
        Query::Exp(s) => {
            a.push("-e".into());
            a.push(s.clone());
        }
        Query::Shots(k) => {
            a.push("--shots".into());
            a.push(k.to_string());
        }
        Query::DefaultTask => {}
    }
    a
}

fn method_args(m: Method, p: Option<usize>) -> Vec<String> {
    let mut a = vec![];
    match m {
        Method::Default => {}
        Method::Cats => a.push("--cats".to_string()),
        Method::Bss => a.push("--bss".to_string()),
    }
    if let Some(d) = p {
        a.push("-p".into());
        a.push(d.to_string());
    }
    a
}

/// Regularised upper incomplete gamma Q(a, x) (Numerical Recipes).
fn gammq(a: f64, x: f64) -> f64 {
    fn gammln(xx: f64) -> f64 {
        let cof = [76.18009172947146, -86.50532032941677, 24.01409824083091, -1.231739572450155, 0.1208650973866179e-2, -0.5395239384953e-5];
        let mut y = xx;
        let tmp = xx + 5.5 - (xx + 0.5) * (xx + 5.5).ln();
        let mut ser = 1.000000000190015;
        for c in cof {
            y += 1.0;
            ser += c / y;
        }
        -tmp + (2.5066282746310005 * ser / xx).ln()
    }
    if x <= 0.0 {
        return 1.0;
    }
    if x < a + 1.0 {
        let mut ap = a;
        let mut sum = 1.0 / a;
        let mut del = sum;
        for _ in 0..1000 {
            ap += 1.0;
            del *= x / ap;
            sum += del;
            if del.abs() < sum.abs() * 1e-16 {
                break;
            }
        }
        1.0 - sum * (-x + a * x.ln() - gammln(a)).exp()
    } else {
        let mut b = x + 1.0 - a;
        let mut c = 1.0 / 1e-300;
        let mut d = 1.0 / b;
        let mut h = d;
        for i in 1..1000 {
            let an = -(i as f64) * (i as f64 - a);
            b += 2.0;
            d = an * d + b;
            if d.abs() < 1e-300 {
                d = 1e-300;
            }
            c = b + an / c;
            if c.abs() < 1e-300 {
                c = 1e-300;
            }
            d = 1.0 / d;
            let del = d * c;
            h *= del;
            if (del - 1.0).abs() < 1e-16 {
                break;
            }
        }
        (-x + a * x.ln() - gammln(a)).exp() * h
    }
}

struct Judge<'a> {
    sc: &'a Sc,
    batch: &'a str,
    t: &'a Truth,
    out: &'a mut RunOut,
}

impl Judge<'_> {
    fn vio(&mut self, class: &str, detail: String) {
        let v = Violation::new(class, detail).with("batch", self.batch);
        if !self.out.violations.iter().any(|x| x.key() == v.key()) {
            self.out.violations.push(v);
        }
    }

    fn tol(&self) -> f64 {
        if self.t.exact {
            1e-9
        } else if self.t.decimal {
            2e-5
        } else {
            1e-7
        }
    }

    /// Judge the text a successful invocation produced.
    fn text(&mut self, q: &Query, text: &str, how: &str) {
        match want(self.t, q) {
            Want::Error => self.vio(
                "malformed_query_accepted",
                format!("{how}: query {:?} on a {}-qubit circuit was answered with '{}' instead of an error", q, self.t.n, text.trim()),
            ),
            Want::Number(x) => match text.trim().parse::<f64>() {
                Ok(y) => {
                    self.out.ev(y.to_bits());
                    // wide registers: the numbers are tiny, so the tolerance is relative there
                    let tol = if self.t.wide {
                        1e-9 * x.abs() + if matches!(q, Query::Amp(_)) { 1e-25 } else { 1e-15 }
                    } else if self.t.exact && matches!(q, Query::Amp(_)) {
                        // Clifford+T: the tool computes in exact arithmetic and prints the f64 nearest to
                        // the result, so a printed probability is good to a relative 1e-9 however small
                        // it is (an absolute tolerance would accept '0' for a probability of 2^-40). Not
                        // for expectation values: the reference computes those in floating point, where
                        // an exact zero comes out as +-1e-17.
                        // (the absolute floor leaves room for an implementation that sums in floating
                        // point; a '0' printed for 2^-40 is still far outside)
                        1e-9 * x.abs() + 1e-15
                    } else {
                        self.tol()
                    };
                    if (x - y).abs() > tol || y.is_nan() {
                        let class = if matches!(q, Query::Amp(_)) { "wrong_probability" } else { "wrong_expectation" };
                        self.vio(class, format!("{how}: query {:?}: printed {} but the true value is {:.12}", q, y, x));
                    }
                }
                Err(_) => self.vio("unparsable_output", format!("{how}: query {:?}: output '{}' is not a number", q, text.trim())),
            },
            Want::Samples(k) => {
                let lines: Vec<&str> = if k == 0 { vec![] } else { text.trim_end_matches('\n').split('\n').collect() };
                // k samples of an n-qubit circuit; for n == 0 every line is empty
                let ok_count = if self.t.n == 0 { true } else { lines.len() == k };
                if !ok_count {
                    self.vio("wrong_sample_count", format!("{how}: asked for {} shots, got {} lines: {:?}", k, lines.len(), &lines[..lines.len().min(4)]));
                    return;
                }
                for l in &lines {
                    self.out.ev(hash_str(l));
                    if self.t.n == 0 {
                        continue;
                    }
                    let bits: Option<Vec<bool>> = l.chars().map(|c| match c { '0' => Some(false), '1' => Some(true), _ => None }).collect();
                    match bits {
                        Some(b) if b.len() == self.t.n => {
                            if self.t.is_zero(&b) {
                                self.vio(
                                    "sample_zero_probability",
                                    format!("{how}: printed sample '{}' has Born probability {} (distribution: {})", l, self.t.prob(&b), show_dist(self.t)),
                                );
                                return;
                            }
                        }
                        _ => {
                            self.vio("malformed_sample", format!("{how}: sample '{}' is not a {}-bit string", l, self.t.n));
                            return;
                        }
                    }
                }
            }
        }
    }

    /// S2: the probability handed to each Bernoulli draw is the conditional probability.
    fn bernoulli(&mut self, st: &CoreStats, how: &str) {
        for (prefix, p) in &st.bern {
            if prefix.len() >= self.t.n {
                self.vio("bernoulli_trace_malformed", format!("{how}: draw conditioned on a prefix of length {}", prefix.len()));
                return;
            }
            let (pp, p1) = self.t.next_bit(prefix);
            if pp <= 1e-12 || !self.t.prefix_possible(prefix) {
                // the sampler is conditioning on an impossible prefix: S1 reports that
                continue;
            }
            let cond = p1 / pp;
            self.out.probe("bernoulli_draw_checked");
            if cond > 1e-9 && cond < 1.0 - 1e-9 && !prefix.is_empty() {
                self.out.probe("bernoulli_draw_nondeterministic_with_prefix");
            }
            // a quotient of two probabilities that are each good to tol(): scale by the divisor
            let tol = if self.t.decimal { 2.0 * self.tol() / pp } else { 1e-7 };
            if (p - cond).abs() > tol {
                let pre: String = prefix.iter().map(|&b| if b { '1' } else { '0' }).collect();
                self.vio(
                    "bernoulli_not_conditional",
                    format!("{how}: bit {} drawn with probability {:.9} given prefix '{}', the conditional probability is {:.9} (joint {:.9})", prefix.len(), p, pre, cond, p1),
                );
                return;
            }
        }
    }
}

/// The same gates on the same qubits with other angles: every rz/rx angle is moved by a quarter
/// or half turn (the gate keeps its name); with `named` the fixed-angle gates T, S and their
/// adjoints are exchanged as well.
pub fn sibling(c: &HCirc, named: bool) -> HCirc {
    let mut o = c.clone();
    for (i, g) in o.gates.iter_mut().enumerate() {
        let shift = |n: i64, d: i64| -> (i64, i64) {
            // + 1/2 or + 1/4 half-turns, alternating
            let (sn, sd) = if i % 2 == 0 { (1, 2) } else { (1, 4) };
            gen::reduce(n * sd + sn * d, d * sd)
        };
        g.k = match g.k {
            GK::Rz(n, d) => {
                let (a, b) = shift(n, d);
                GK::Rz(a, b)
            }
            GK::Rx(n, d) => {
                let (a, b) = shift(n, d);
                GK::Rx(a, b)
            }
            GK::RzMix(a, n, d) => GK::RzMix(a + 500, n, d),
            GK::RxMix(a, n, d) => GK::RxMix(a + 500, n, d),
            GK::T if named => GK::Tdg,
            GK::Tdg if named => GK::T,
            GK::S if named => GK::Sdg,
            GK::Sdg if named => GK::S,
            k => k,
        };
    }
    o
}

/// A valid-looking answer of the query's kind, to fill a pre-existing output file with.
fn stale_answer(sc: &Sc) -> String {
    match &sc.query {
        Query::Amp(_) | Query::Exp(_) => "0.12345678901234567\n".to_string(),
        _ => format!("{}\n", "01".repeat(sc.circ.n.div_ceil(2)).chars().take(sc.circ.n.max(1)).collect::<String>()),
    }
}

fn show_dist(t: &Truth) -> String {
    if t.wide {
        return format!("product of {} factors", t.factors.len());
    }
    let mut v: Vec<String> = vec![];
    for (i, p) in t.probs.iter().enumerate() {
        if !t.zero[i] && v.len() < 8 {
            v.push(format!("{}:{:.4}", gatesim::bits_of(i, t.n), p));
        }
    }
    v.join(" ")
}

fn ensure_no_idle(d: &mut Decider, c: &mut HCirc) {
    for q in 0..c.n {
        if !c.gates.iter().any(|g| g.qs.contains(&q)) {
            let k = *d.pick("idlefix", &[GK::H, GK::S, GK::Z, GK::X]);
            let pos = d.choose("idlepos", c.gates.len() + 1);
            c.gates.insert(pos, HGate { k, qs: vec![q] });
        }
    }
}

fn gen_query(d: &mut Decider, n: usize, shots_max: usize) -> Query {
    match d.choose("qk", 10) {
        0..=2 => {
            let s: String = if d.coin("bc", 1, 5) || n == 0 {
                if d.coin("b", 1, 2) { "1".into() } else { "0".into() }
            } else {
                (0..n).map(|_| if d.coin("b", 1, 2) { '1' } else { '0' }).collect()
            };
            Query::Amp(s)
        }
        3..=5 => {
            let letters = ['I', 'X', 'Y', 'Z', 'i', 'x', 'y', 'z'];
            let s: String = if d.coin("pc", 1, 5) || n == 0 {
                letters[d.choose("p", 8)].to_string()
            } else {
                (0..n).map(|_| letters[d.choose("p", 8)]).collect()
            };
            Query::Exp(s)
        }
        6 => Query::DefaultTask,
        _ => {
            let k = match d.choose("sk", 8) {
                0 => 0,
                1 => 1,
                2 => shots_max,
                _ => 1 + d.choose("s", 8),
            };
            Query::Shots(k)
        }
    }
}

fn malformed_tail(d: &mut Decider, n: usize) -> Vec<String> {
    let s = |x: &str| x.to_string();
    let wrong_len = |d: &mut Decider| -> usize {
        loop {
            let l = d.choose("wl", n + 4);
            if l != 1 && l != n {
                return l;
            }
        }
    };
    match d.choose("mk", 16) {
        0 => {
            let l = wrong_len(d);
            vec![s("-a"), "0".repeat(l)]
        }
        1 => {
            let l = wrong_len(d);
            vec![s("-e"), "Z".repeat(l)]
        }
        2 | 3 | 4 | 5 => {
            // a string of the right length (or the one-character broadcast form) in which one or
            // more characters are not letters of the alphabet: ASCII look-alikes, blanks, and
            // multi-byte characters (accented, Greek, full-width and Arabic-Indic digits, an
            // emoji, a combining mark)
            let amp = d.coin("mbits", 1, 2);
            let good: &[char] = if amp { &['0', '1'] } else { &['I', 'X', 'Y', 'Z', 'i', 'x', 'y', 'z'] };
            let bad_a: &[char] = &['2', 'x', 'o', 'O', 'l', '-', '+', ' ', '\t', ',', '_', 'é', 'Χ', '０', '１', '١', '🙂', '\u{301}', 'ß', '\u{a0}'];
            let bad_e: &[char] = &['0', '1', 'Q', 'H', 'w', '-', '+', ' ', '\t', ',', '_', 'é', 'Χ', 'Ζ', 'Ι', 'Ｘ', '🙂', '\u{301}', 'ß', '\u{a0}'];
            let bad = if amp { bad_a } else { bad_e };
            let len = if n == 0 || d.coin("mone", 1, 5) { 1 } else { n };
            let mut cs: Vec<char> = (0..len).map(|_| *d.pick("mgood", good)).collect();
            let nbad = 1 + d.choose("mnbad", 2.min(len));
            for _ in 0..nbad {
                let i = d.choose("mpos", len);
                cs[i] = *d.pick("mbad", bad);
            }
            vec![s(if amp { "-a" } else { "-e" }), cs.into_iter().collect()]
        }
        6 => vec![s("-a"), s("0"), s("-e"), s("Z")],
        7 => vec![s("--cats"), s("--bss")],
        8 => vec![s("--shots"), s("abc")],
        9 => vec![s("--shots"), s("-1")],
        10 => vec![s("-p"), s("x")],
        11 => vec![s("--frobnicate")],
        12 => vec![s("--shots"), s("1"), s("-a"), s("0")],
        13 => vec![s("-a"), format!("{} ", "0".repeat(n))],
        14 => vec![s("-e"), format!(" {}", "Z".repeat(n))],
        _ => vec![s("--shots"), s("1.5")],
    }
}

impl C06 {
    fn circuit_for(&self, d: &mut Decider, tier: Tier, sub: &str) -> HCirc {
        let nmax = if tier == Tier::Thorough { 5 } else { 4 };
        let n = 1 + d.choose("n", nmax);
        let ng = d.choose("ng", 15);
        let base = GateMix { clifford_t_only: true, allow_swap: false, allow_ccz: true, allow_xcx: true, allow_rx: true, max_den: 4 };
        match sub {
            "swap" => {
                let n = n.max(2);
                let mut c = gen::random_circuit(d, n, ng.max(2), GateMix { allow_swap: true, ..base }, 6);
                if !c.has(|k| *k == GK::Swap) {
                    let a = d.choose("sa", n);
                    let mut b = d.choose("sb", n - 1);
                    if b >= a {
                        b += 1;
                    }
                    let pos = d.choose("spos", c.gates.len() + 1);
                    c.gates.insert(pos, HGate { k: GK::Swap, qs: vec![a, b] });
                }
                ensure_no_idle(d, &mut c);
                c
            }
            "phases" => {
                let mut c = gen::random_circuit(d, n, ng.max(1), GateMix { clifford_t_only: false, max_den: 16, ..base }, 4);
                if c.is_exact() {
                    let q = d.choose("pq", n);
                    let den = *d.pick("pden", &[3i64, 5, 6, 8, 12, 16]);
                    let (a, b) = gen::reduce(d.range("pnum", 1, 2 * den - 1), den);
                    let k = if b == 1 || b == 2 || b == 4 { GK::Rz(1, 8) } else { GK::Rz(a, b) };
                    let pos = d.choose("ppos", c.gates.len() + 1);
                    c.gates.insert(pos, HGate { k: GK::H, qs: vec![q] });
                    c.gates.insert(pos + 1, HGate { k, qs: vec![q] });
                }
                if d.coin("mixed", 1, 3) {
                    // an angle stated as a plain number of radians, alone or added to a multiple
                    // of π (`rz(0.3)`, `rx(pi/2-1.25)`): the reader's other branch
                    for _ in 0..1 + d.choose("nmix", 2) {
                        let q = d.choose("mq", n);
                        let mut a = d.range("ma", -3200, 3200);
                        if a == 0 {
                            a = 300;
                        }
                        let den = *d.pick("mden", &[1i64, 2, 4, 4, 8, 3]);
                        let (bn, bd) = if d.coin("mpure", 1, 4) { (0, 1) } else { gen::reduce(d.range("mnum", -(2 * den - 1), 2 * den - 1), den) };
                        let k = if d.coin("mx", 1, 3) { GK::RxMix(a, bn, bd) } else { GK::RzMix(a, bn, bd) };
                        let pos = d.choose("mpos", c.gates.len() + 1);
                        c.gates.insert(pos, HGate { k, qs: vec![q] });
                        c.gates.insert(pos, HGate { k: GK::H, qs: vec![q] });
                    }
                }
                ensure_no_idle(d, &mut c);
                c
            }
            "idle" => {
                // at least one qubit carries no gate at all
                let n = n.max(2);
                let idle = d.choose("idle", n);
                let mut c = gen::random_circuit(d, n, ng.max(1), base, 6);
                c.gates.retain(|g| !g.qs.contains(&idle));
                if c.gates.is_empty() {
                    let q = (idle + 1) % n;
                    c.gates.push(HGate { k: GK::Tdg, qs: vec![q] });
                }
                c
            }
            "empty" => HCirc::new(n),
            "tiny" => {
                // 1..2 qubits, a few gates: thousands of shots stay cheap
                let n = 1 + d.choose("tn", 2);
                let tng = 1 + d.choose("tng", 5);
                let mut c = gen::random_circuit(d, n, tng, GateMix { allow_ccz: false, ..base }, 2);
                if !c.has(|k| *k == GK::H) {
                    let q = d.choose("thq", n);
                    c.gates.insert(0, HGate { k: GK::H, qs: vec![q] });
                }
                c
            }
            "deeper" => {
                // 5..8 qubits, 15..45 gates, at most 5 non-Clifford gates
                let n = 5 + d.choose("dn", 4);
                let ng = 15 + d.choose("dng", 31);
                let mut c = gen::random_circuit(d, n, ng, GateMix { allow_swap: true, ..base }, 5);
                if d.coin("didle", 3, 4) {
                    ensure_no_idle(d, &mut c);
                }
                c
            }
            "wide" => {
                // 24..48 qubits as a product of 1..3-qubit blocks (the oracle multiplies the block
                // answers): joint probabilities far below single precision, long -a / -e strings
                let n = 24 + d.choose("wn", 25);
                let order = d.permutation("wperm", n);
                let mut c = HCirc::new(n);
                let mut tleft = 4usize;
                let mut blocks: Vec<Vec<HGate>> = vec![];
                let mut i = 0;
                while i < n {
                    let sz = (1 + d.choose("wsz", 3)).min(n - i);
                    let qs = &order[i..i + sz];
                    i += sz;
                    let tb = if tleft > 0 && d.coin("wt", 1, 4) { 1 + d.choose("wtb", tleft.min(2)) } else { 0 };
                    let wng = d.choose("wng", 6);
                    let sub = gen::random_circuit(d, sz, wng, GateMix { allow_ccz: false, ..base }, tb);
                    tleft -= sub.gates.iter().filter(|g| g.k.is_non_clifford()).count().min(tleft);
                    let mut gs: Vec<HGate> = vec![];
                    for &q in qs {
                        if d.coin("wh", 7, 8) {
                            gs.push(HGate { k: GK::H, qs: vec![q] });
                        }
                    }
                    gs.extend(sub.gates.iter().map(|g| HGate { k: g.k, qs: g.qs.iter().map(|&l| qs[l]).collect() }));
                    blocks.push(gs);
                }
                // interleave the blocks (they commute), keeping each block's own order
                let mut idx = vec![0usize; blocks.len()];
                loop {
                    let live: Vec<usize> = (0..blocks.len()).filter(|&b| idx[b] < blocks[b].len()).collect();
                    if live.is_empty() {
                        break;
                    }
                    let b = live[d.choose("wil", live.len())];
                    c.gates.push(blocks[b][idx[b]].clone());
                    idx[b] += 1;
                }
                c
            }
            "toffoli" => {
                // 3..4 qubits, one or two three-qubit gates (ccx / ccz) among a few one- and two-qubit
                // gates: the other families' T budget (the doubled diagram stays within 12 T) never
                // admits a Toffoli. Short circuits, so that which qubits a gate touches matters
                // (idle controls, controls prepared by one earlier gate, targets read out alone).
                let n = 3 + d.choose("tfn", 2);
                let len = 2 + d.choose("tfl", 7);
                let mut c = HCirc::new(n);
                let n3 = 1 + d.choose("tf3", 2);
                let mut pos3: Vec<usize> = (0..n3).map(|_| d.choose("tfpos", len)).collect();
                pos3.sort();
                // superpositions on some qubits first (otherwise most outputs are basis states)
                for q in 0..n {
                    if d.coin("tfh", 1, 2) {
                        c.gates.push(HGate { k: GK::H, qs: vec![q] });
                    }
                }
                for i in 0..len {
                    if pos3.contains(&i) {
                        let p = d.permutation("tfq3", n);
                        c.gates.push(HGate { k: *d.pick("tfk3", &[GK::CCX, GK::CCZ, GK::CCX]), qs: vec![p[0], p[1], p[2]] });
                        continue;
                    }
                    if d.coin("tf2", 1, 3) {
                        let a = d.choose("tfa", n);
                        let mut b = d.choose("tfb", n - 1);
                        if b >= a {
                            b += 1;
                        }
                        c.gates.push(HGate { k: *d.pick("tfk2", &[GK::CX, GK::CZ, GK::CX]), qs: vec![a, b] });
                    } else {
                        let q = d.choose("tfq", n);
                        c.gates.push(HGate { k: *d.pick("tfk1", &[GK::H, GK::H, GK::H, GK::X, GK::S, GK::Z, GK::T]), qs: vec![q] });
                    }
                }
                c
            }
            "t_heavier" => {
                // T gates that neither merge nor cancel: each one behind its own Hadamard, with
                // entangling gates in between (3 qubits, 5..9 T)
                let n = 3;
                let mut c = HCirc::new(n);
                let nt = 5 + d.choose("hvt", 5);
                for _ in 0..nt {
                    let q = d.choose("hvq", n);
                    c.gates.push(HGate { k: GK::H, qs: vec![q] });
                    c.gates.push(HGate { k: *d.pick("hvk", &[GK::T, GK::Tdg, GK::T]), qs: vec![q] });
                    if d.coin("hve", 2, 3) {
                        let a = d.choose("hva", n);
                        let mut b = d.choose("hvb", n - 1);
                        if b >= a {
                            b += 1;
                        }
                        c.gates.push(HGate { k: *d.pick("hv2", &[GK::CX, GK::CZ]), qs: vec![a, b] });
                    }
                    if d.coin("hvs", 1, 6) {
                        c.gates.push(HGate { k: GK::S, qs: vec![d.choose("hvsq", n)] });
                    }
                }
                for q in 0..n {
                    if d.coin("hvh", 1, 2) {
                        c.gates.push(HGate { k: GK::H, qs: vec![q] });
                    }
                }
                c
            }
            "t_heavy" => {
                if d.coin("thshape", 1, 2) {
                    return self.circuit_for(d, tier, "t_heavier");
                }
                let tmax = 6;
                // Hadamard-sandwiched T gates that survive full_simp, so that the decomposer (and
                // with -p the fork-join path) really runs: H layer, then T / CX / H mixed
                let n = 2 + d.choose("thn", 2);
                let mut c = HCirc::new(n);
                for q in 0..n {
                    c.gates.push(HGate { k: GK::H, qs: vec![q] });
                }
                let len = 6 + d.choose("thl", 10);
                let mut t = 0;
                for _ in 0..len {
                    match d.choose("thk", 6) {
                        0 | 1 if t < tmax => {
                            t += 1;
                            let k = *d.pick("tht", &[GK::T, GK::Tdg]);
                            c.gates.push(HGate { k, qs: vec![d.choose("thq", n)] });
                        }
                        2 | 3 => {
                            let a = d.choose("tha", n);
                            let mut b = d.choose("thb", n - 1);
                            if b >= a {
                                b += 1;
                            }
                            let k = *d.pick("th2", &[GK::CX, GK::CZ]);
                            c.gates.push(HGate { k, qs: vec![a, b] });
                        }
                        _ => c.gates.push(HGate { k: GK::H, qs: vec![d.choose("thh", n)] }),
                    }
                }
                c
            }
            _ => {
                let mut c = gen::random_circuit(d, n, ng, base, 6);
                ensure_no_idle(d, &mut c);
                c
            }
        }
    }
}

impl Property for C06 {
    type Sc = Sc;
    fn id(&self) -> &'static str {
        "C06"
    }
    fn level(&self) -> &'static str {
        "exploration"
    }
    fn rule(&self) -> String {
        "decider generates a circuit (1..4 qubits quick / 5 thorough, <=14 gates from the QASM-expressible unitary set; sub-batches: Clifford+T without SWAP, with SWAP, with non-k*pi/4 phases, with idle qubits, zero-gate programs), prints it with the harness's own QASM printer, picks a query (amplitude / expectation incl. broadcast and lower case, --shots 0..16, default task), method and --parallel, and calls the CLI in-process with the ambient-RNG seam (every Bernoulli draw of the sampler is a decider decision), the fork-join seam and the Bernoulli observer installed; the same query is repeated under another method and the other --parallel setting. Oracles from the harness's state-vector simulator: printed probability / expectation; S1 every printed sample has non-zero Born probability; S2 each (prefix, p) handed to a Bernoulli draw satisfies p = P(next=1 | prefix); S3 (stats sub-batch) chi-square of decider-driven samples against the Born distribution at 1e-12. Malformed argv must give an error, not a panic or an answer. Fault sub-batch: the real binary as a child under input faults (missing, directory, empty, torn at a statement boundary / mid token) and output faults (ENOSPC, torn write by RLIMIT_FSIZE, missing directory, directory target, stdout to /dev/full, closed pipe), and sub-batch sysfaults: the child under the system-call seam (LD_PRELOAD shim: short reads / short writes, EINTR and errno failures at decider-chosen open/read/write calls on the input file, the --out file or stdout; up to 300 shots so that the answer spans several writes): success only with the complete correct answer for the complete program. Further dimensions of a run: a longer file already at the --out path (a third of the runs); an earlier Cli::run on the same (fresh) thread before the query under test - the same query on a sibling circuit with other angles, another circuit at the same path, or a failing call (a third of the in-process runs); sub-batch many_shots (1000..16385 shots on 1-2 qubits: batch and buffer boundaries); wide registers (24..48 qubits as a product of small blocks) with 64..80 shots in a quarter of the runs and amplitude queries inside the support; malformed strings with multi-byte characters. S4: per-position and overall drift of the printed bits against the reference conditionals, Hoeffding bound below 1e-12. Printed probabilities of Clifford+T circuits are compared relatively (1e-9*x + 1e-15). Non-trivial: >=2 basis states with non-zero probability and a marginal strictly between 0 and 1 conditioned on a non-deterministic prefix. Distinct by (scenario digest, event digest).".into()
    }
    fn assumptions(&self) -> Vec<String> {
        vec![
            "the harness's gate-matrix simulator (exact ring for Clifford+T, f64 otherwise; self-tested) is correct; bit i of a printed string is qubit i".into(),
            "tolerances: 1e-9 (Clifford+T) / 1e-7 (other rational phases) / 2e-5 (angles stated as a decimal number of radians, which the reader converts in single precision) on printed numbers and Bernoulli parameters".into(),
            "a closed stdout (fd 1 closed by the caller) is not judged: Rust's runtime treats EBADF on stdout as success".into(),
        ]
    }
    fn real_vs_stub(&self) -> Value {
        json!({"real": ["clap argument parsing", "Cli::run / SimArgs::run", "openqasm parser reading the real file", "circuit->diagram translation, full_simp, Decomposer with both CLI drivers", "fs::write of the result", "the kernel's open/read/write behind the LD_PRELOAD shim (the shim only limits how many bytes a call may transfer or picks the errno; data moves through the real system call)", "the shipped quizx binary (child-process runs: exit status, stdout, rlimits)"], "stubbed": ["entropy behind the sampler's rand::rng(): decider draws (in-process runs only)", "rayon scheduler under --parallel: decider-driven fork-join model (in-process runs only)"]})
    }
    fn sub_batches(&self) -> Vec<SubBatch> {
        vec![
            SubBatch { name: "clifford_t", quick: 14_000, thorough: 160_000 },
            SubBatch { name: "swap", quick: 3_000, thorough: 40_000 },
            SubBatch { name: "phases", quick: 3_000, thorough: 40_000 },
            SubBatch { name: "idle", quick: 3_000, thorough: 40_000 },
            SubBatch { name: "empty", quick: 500, thorough: 4_000 },
            SubBatch { name: "t_heavy", quick: 2_500, thorough: 60_000 },
            SubBatch { name: "toffoli", quick: 1_500, thorough: 30_000 },
            SubBatch { name: "malformed", quick: 3_000, thorough: 20_000 },
            SubBatch { name: "child", quick: 400, thorough: 4_000 },
            SubBatch { name: "child_threads", quick: 600, thorough: 12_000 },
            SubBatch { name: "faults", quick: 800, thorough: 8_000 },
            SubBatch { name: "sysfaults", quick: 1_000, thorough: 12_000 },
            SubBatch { name: "stats", quick: 48, thorough: 600 },
            SubBatch { name: "wide", quick: 320, thorough: 4_000 },
            SubBatch { name: "many_shots", quick: 64, thorough: 1_200 },
            SubBatch { name: "deeper", quick: 1_200, thorough: 30_000 },
        ]
    }
    fn expected_probes(&self) -> Vec<&'static str> {
        vec![
            "bernoulli_draw_checked",
            "bernoulli_draw_nondeterministic_with_prefix",
            "query.amp",
            "query.exp",
            "query.shots",
            "query.broadcast",
            "parallel_run_with_region",
            "chi_square_checked",
            "wide_prefix_probability_below_1e-9",
            "gate.h", "gate.x", "gate.z", "gate.s", "gate.sdg", "gate.t", "gate.tdg", "gate.rz", "gate.rx", "gate.cx", "gate.cz", "gate.swap", "gate.xcx", "gate.ccx", "gate.ccz",
        ]
    }

    fn generate(&self, d: &mut Decider, tier: Tier, sub: &str) -> Sc {
        let family = match sub {
            "malformed" | "child" | "faults" | "sysfaults" | "stats" => "clifford_t",
            "many_shots" => "tiny",
            "child_threads" => "t_heavier",
            s => s,
        };
        let mut circ = self.circuit_for(d, tier, family);
        // equivalent spellings of the same program in a third of the runs
        if d.coin("style", 1, 3) {
            circ.style = d.draw64("style.seed") | 1;
            if circ.n >= 2 && d.coin("regs", 1, 2) {
                let cut = 1 + d.choose("cut", circ.n - 1);
                circ.regs = vec![cut, circ.n - cut];
            }
        }
        if sub != "faults" && d.coin("defs", 1, 6) {
            circ.defs = d.draw64("defs.seed") | 1;
        }
        let n = circ.n;
        let method = *d.pick("method", &[Method::Default, Method::Cats, Method::Bss]);
        // --parallel d: mostly shallow, sometimes deeper than any decomposition tree gets
        let parallel = if d.coin("par", 1, 2) { Some(if d.coin("pd.deep", 1, 8) { *d.pick("pd.big", &[4usize, 5, 7, 10, 64, 1000]) } else { d.choose("pd", 4) }) } else { None };
        let (query, mode) = match sub {
            "malformed" => (Query::DefaultTask, Mode::Malformed(malformed_tail(d, n))),
            "child" => (gen_query(d, n, 4), Mode::ChildStdout),
            "child_threads" => {
                // deterministic queries only (the real RNG is not under control in a child)
                let q = loop {
                    let q = gen_query(d, n, 1);
                    if matches!(q, Query::Amp(_) | Query::Exp(_)) {
                        break q;
                    }
                };
                (q, Mode::ChildThreads(1 + d.choose("threads", 16)))
            }
            "faults" => {
                let q = gen_query(d, n, 4);
                let ng = circ.gates.len();
                let inf = match d.choose("inf", 8) {
                    0 => InFault::Missing,
                    1 => InFault::IsDir,
                    2 => InFault::Empty,
                    3 => InFault::TruncatedAtStatement(if ng >= 2 { 1 + d.choose("ts", ng - 1) } else { ng }),
                    4 => InFault::TruncatedMid(d.choose("tm", 40 + 12 * ng)),
                    _ => InFault::None,
                };
                let outf = if inf == InFault::None || d.coin("both", 1, 6) {
                    match d.choose("outf", 8) {
                        0 => OutFault::Enospc,
                        1 => OutFault::Efbig(d.choose("efbig", 12) as u64),
                        2 => OutFault::NoDir,
                        3 => OutFault::IsDir,
                        4 => OutFault::StdoutEnospc,
                        5 => OutFault::StdoutEpipe,
                        6 => OutFault::StdoutClosed,
                        _ => OutFault::Efbig(64),
                    }
                } else {
                    OutFault::None
                };
                (q, Mode::ChildFaults(inf, outf))
            }
            "sysfaults" => {
                // long outputs (many shots) in a quarter of the runs, so that the result spans several
                // write calls and buffers
                let q = if d.coin("sys.many", 1, 4) { Query::Shots(50 + d.choose("sys.shots", 250)) } else { gen_query(d, n, 8) };
                let hard = d.coin("sys.hard", 1, 3);
                (q, Mode::ChildSys { plan: cli::gen_sysplan(d, hard), to_stdout: d.coin("sys.stdout", 1, 2) })
            }
            "stats" => (Query::Shots(if tier == Tier::Thorough { 2000 } else { 400 }), Mode::InProcess),
            "deeper" => (gen_query(d, n, 6), Mode::InProcess),
            "wide" => {
                let q = match gen_query(d, n, 3) {
                    Query::Shots(k) => Query::Shots(k.min(3)),
                    q => q,
                };
                // enough shots for the per-position drift test (S4) in a quarter of the runs
                let q = if d.coin("wmany", 1, 4) { Query::Shots(64 + d.choose("wshots", 17)) } else { q };
                // a random bit string almost never lies in the support of a wide state: three
                // amplitude queries in four ask for a string that does (probability 2^-20 .. 2^-48,
                // printed numbers are compared with a relative tolerance there)
                let q = match q {
                    Query::Amp(s) if s.len() == n && d.coin("wsupp", 3, 4) => {
                        let t = truth(&circ);
                        let mut bits = vec![false; n];
                        for f in &t.factors {
                            let nz: Vec<usize> = (0..f.probs.len()).filter(|&i| !f.zero[i]).collect();
                            let i = nz[d.choose("wsuppi", nz.len())];
                            for (li, &qq) in f.qs.iter().enumerate() {
                                bits[qq] = (i >> li) & 1 == 1;
                            }
                        }
                        Query::Amp(bits.iter().map(|&b| if b { '1' } else { '0' }).collect())
                    }
                    q => q,
                };
                (q, Mode::InProcess)
            }
            // batch-size and buffer boundaries of the sampling loop and of the result writer
            "many_shots" => (Query::Shots(*d.pick("mshots", &[1000usize, 2048, 4095, 4096, 4097, 5000, 8191, 8192, 8193, 10_000, 12_289, 16_385])), Mode::InProcess),
            _ => (gen_query(d, n, 16), Mode::InProcess),
        };
        let parallel = if sub == "child_threads" { Some(d.choose("pdepth", 4)) } else { parallel };
        let pre = if d.coin("pre", 1, 3) { 1 + d.choose("prek", 2) as u8 } else { 0 };
        let history = if matches!(mode, Mode::InProcess) && sub != "stats" && sub != "many_shots" && d.coin("hist", 1, 3) { 1 + d.choose("histk", 4) as u8 } else { 0 };
        Sc { circ, query, method, parallel, mode, pre, history }
    }

    fn execute(&self, sc: &Sc, sub: &str, exec: Decider, env: &Env) -> RunOut {
        let mut out = RunOut { engine: "native", ..Default::default() };
        out.scenario_digest = hash_str(&serde_json::to_string(sc).unwrap());
        let mut dec = exec;
        let t = truth(&sc.circ);
        let tag = format!("c06-{:016x}", mix(out.scenario_digest, dec.digest ^ 0x6));
        let scratch = Scratch::new(&env.scratch, &tag);
        match &sc.query {
            Query::Amp(s) => {
                out.probe("query.amp");
                if s.len() == 1 && t.n > 1 {
                    out.probe("query.broadcast");
                }
            }
            Query::Exp(s) => {
                out.probe("query.exp");
                if s.len() == 1 && t.n > 1 {
                    out.probe("query.broadcast");
                }
            }
            _ => out.probe("query.shots"),
        }
        // non-triviality of the output state
        let mut nz = t.zero.iter().filter(|z| !**z).count();
        let mut interesting_marginal = false;
        if t.wide {
            // product state of small factors: count the qubits whose factor is not deterministic
            let random_bits: usize = t.factors.iter().filter(|f| f.zero.iter().filter(|z| !**z).count() >= 2).map(|f| f.qs.len()).sum();
            nz = if random_bits >= 1 { 2 } else { 1 };
            interesting_marginal = random_bits >= 2;
            if random_bits >= 30 {
                out.probe("wide_prefix_probability_below_1e-9");
            }
        } else if t.n >= 2 {
            for i in 0..t.probs.len() {
                if t.zero[i] {
                    continue;
                }
                let bits: Vec<bool> = (0..t.n).map(|q| (i >> q) & 1 == 1).collect();
                for k in 1..t.n {
                    let pp = gatesim::prefix_prob(&t.probs, &bits[..k]);
                    let mut w = bits[..k].to_vec();
                    w.push(true);
                    let c = gatesim::prefix_prob(&t.probs, &w) / pp;
                    if pp < 1.0 - 1e-9 && c > 1e-9 && c < 1.0 - 1e-9 {
                        interesting_marginal = true;
                    }
                }
            }
        }
        // which gate kinds this run's program uses (a kind that never shows up in a whole batch is a
        // hole in the workload, however the generator is described)
        {
            let mut kinds: Vec<&'static str> = sc.circ.gates.iter().map(|g| g.k.name()).collect();
            kinds.sort();
            kinds.dedup();
            for k in kinds {
                out.probe(&format!("gate.{k}"));
            }
        }
        let header = sc.circ.qasm_header();
        let stmts = sc.circ.qasm_statements();
        match &sc.mode {
            Mode::InProcess => {
                // the query under the chosen (method, parallel) and under two variations
                let other_method = match sc.method {
                    Method::Bss => Method::Cats,
                    _ => Method::Bss,
                };
                let other_par = match sc.parallel {
                    Some(_) => None,
                    None => Some(2),
                };
                if sc.history > 0 {
                    // an earlier call on this thread; its own answer is not judged here
                    out.probe(&format!("cli_call_history.{}", sc.history));
                    let (wcirc, wtail): (HCirc, Vec<String>) = match sc.history {
                        1 | 2 => (sibling(&sc.circ, sc.history == 2), argv_tail(sc)),
                        3 => (sibling(&sc.circ, true), argv_tail(sc)),
                        _ => (sc.circ.clone(), vec!["-a".into(), "0".repeat(t.n + 2)]),
                    };
                    let wpath = if sc.history == 3 {
                        // same path as the real input, which prepare_input overwrites afterwards
                        let p = cli::input_path(&scratch, &header, &stmts);
                        std::fs::write(&p, wcirc.to_qasm()).expect("scratch write");
                        p
                    } else {
                        let p = scratch.path("earlier.qasm");
                        std::fs::write(&p, wcirc.to_qasm()).expect("scratch write");
                        p
                    };
                    let mut argv: Vec<String> = vec!["quizx".into(), "sim".into(), wpath.to_string_lossy().to_string()];
                    argv.extend(wtail);
                    argv.extend(method_args(sc.method, sc.parallel));
                    argv.push("-o".into());
                    argv.push(scratch.path("earlier-out.txt").to_string_lossy().to_string());
                    let (_res, core) = cli::run_in_process(&argv, dec, 1);
                    dec = core.dec;
                    out.steps += 1;
                }
                let input = cli::prepare_input(&scratch, &header, &stmts, &InFault::None);
                let variants = if sub == "stats" || sub == "many_shots" {
                    vec![(sc.method, sc.parallel)]
                } else {
                    vec![(sc.method, sc.parallel), (other_method, sc.parallel), (sc.method, other_par)]
                };
                for (vi, (m, p)) in variants.into_iter().enumerate() {
                    let outp = scratch.path(&format!("out{vi}.txt"));
                    cli::precreate(&outp, sc.pre, &stale_answer(sc));
                    if sc.pre > 0 {
                        out.probe("output_file_preexisting_longer_content");
                    }
                    let mut argv: Vec<String> = vec!["quizx".into(), "sim".into(), input.to_string_lossy().to_string()];
                    argv.extend(argv_tail(sc));
                    argv.extend(method_args(m, p));
                    argv.push("-o".into());
                    argv.push(outp.to_string_lossy().to_string());
                    let w = 1 + dec.choose("W", 16);
                    // the --parallel runs of the last variant use the simulated worker pool
                    let pool = if p.is_some() && vi == 2 { 2 + dec.choose("poolW", 3) } else { 0 };
                    let (res, core) = cli::run_in_process_pool(&argv, dec, w, pool);
                    if pool > 0 && core.stats.regions > 0 {
                        out.probe("parallel_run_on_simulated_pool");
                    }
                    dec = core.dec;
                    let st = core.stats;
                    out.steps += st.decomp_steps + st.bern.len() as u64 + 1;
                    out.count("ambient_rng_draws", st.rng_draws);
                    out.count("fork_join_regions", st.regions);
                    if p.is_some() && st.regions_ge2 > 0 {
                        out.probe("parallel_run_with_region");
                        out.distinct.insert(format!("schedule.{vi}"), st.schedule_digest);
                    }
                    let how = format!("sim {} {}", argv_tail(sc).join(" "), method_args(m, p).join(" "));
                    let mut j = Judge { sc, batch: sub, t: &t, out: &mut out };
                    match res {
                        CliResult::Ok(_) => match std::fs::read_to_string(&outp) {
                            Ok(text) => {
                                j.text(&sc.query, &text, &how);
                                if matches!(sc.query, Query::Shots(_) | Query::DefaultTask) {
                                    if st.bern.is_empty() {
                                        if t.n > 0 && !matches!(sc.query, Query::Shots(0)) {
                                            j.out.probe("bernoulli_hook_not_observed");
                                        }
                                    } else {
                                        j.bernoulli(&st, &how);
                                    }
                                    if sub == "stats" {
                                        chi_square(&mut j, &text, &how);
                                    }
                                    drift(&mut j, &text, &how);
                                }
                            }
                            Err(e) => j.vio("success_without_output", format!("{how}: reported success but the -o file cannot be read: {e}")),
                        },
                        CliResult::Err(e) => {
                            if !matches!(want(&t, &sc.query), Want::Error) {
                                j.vio("unexpected_error", format!("{how}: well-formed query on a {}-qubit circuit failed: {e}", t.n));
                            } else {
                                j.out.probe("malformed_query_rejected");
                            }
                        }
                        CliResult::Panic(m) => {
                            let v = Violation::new("panic", format!("{how}: {m}"))
                                .with("batch", sub)
                                .with("msg", super::c18::norm_msg(&m));
                            if !j.out.violations.iter().any(|x| x.key() == v.key()) {
                                j.out.violations.push(v);
                            }
                        }
                        CliResult::Budget => {
                            j.out.inconclusive = true;
                        }
                    }
                }
                out.nontrivial = nz >= 2 && interesting_marginal;
            }
            Mode::Malformed(tail) => {
                let input = cli::prepare_input(&scratch, &header, &stmts, &InFault::None);
                let mut argv: Vec<String> = vec!["quizx".into(), "sim".into(), input.to_string_lossy().to_string()];
                argv.extend(tail.iter().cloned());
                argv.push("-o".into());
                argv.push(scratch.path("out.txt").to_string_lossy().to_string());
                let (res, core) = cli::run_in_process(&argv, dec, 1);
                dec = core.dec;
                out.steps += 1;
                out.fault("argv_malformed");
                let how = format!("sim {}", tail.join(" "));
                match res {
                    CliResult::Err(e) => {
                        out.ev_str(&e);
                        out.probe("malformed_query_rejected");
                    }
                    CliResult::Ok(_) => {
                        let txt = std::fs::read_to_string(scratch.path("out.txt")).unwrap_or_default();
                        out.violations.push(
                            Violation::new("malformed_query_accepted", format!("{how} on a {}-qubit circuit succeeded with output '{}'", t.n, txt.trim()))
                                .with("batch", sub),
                        );
                    }
                    CliResult::Panic(m) => out.violations.push(
                        Violation::new("panic", format!("{how}: {m}")).with("batch", sub).with("msg", super::c18::norm_msg(&m)),
                    ),
                    CliResult::Budget => out.inconclusive = true,
                }
                out.nontrivial = true;
            }
            Mode::ChildStdout | Mode::ChildThreads(_) => {
                out.engine = "child_process";
                let threads = match &sc.mode {
                    Mode::ChildThreads(t) => {
                        out.probe(&format!("child_pool_size.{}", if *t <= 4 { t.to_string() } else if *t <= 8 { "5-8".into() } else { "9-16".into() }));
                        Some(*t)
                    }
                    _ => None,
                };
                let bin = match &env.quizx_bin {
                    Some(b) => b.clone(),
                    None => panic!("QSIM_QUIZX_BIN not set"),
                };
                let input = cli::prepare_input(&scratch, &header, &stmts, &InFault::None);
                let mut tail: Vec<String> = vec!["sim".into(), input.to_string_lossy().to_string()];
                tail.extend(argv_tail(sc));
                tail.extend(method_args(sc.method, sc.parallel));
                let res = cli::run_child_stdout_threads(&bin, &tail, threads);
                out.steps += 1;
                let how = match threads {
                    Some(t) => format!("RAYON_NUM_THREADS={} quizx {} (child, stdout)", t, tail[2..].join(" ")),
                    None => format!("quizx {} (child, stdout)", tail[2..].join(" ")),
                };
                let mut j = Judge { sc, batch: sub, t: &t, out: &mut out };
                match res {
                    CliResult::Ok(Some(text)) => {
                        // println! adds one newline
                        let text = text.strip_suffix('\n').unwrap_or(&text).to_string();
                        // samples are random here: judge through S1 only, and do not fold them into the digest
                        let before = j.out.event_digest;
                        j.text(&sc.query, &text, &how);
                        if matches!(sc.query, Query::Shots(_) | Query::DefaultTask) {
                            j.out.event_digest = before;
                        }
                    }
                    CliResult::Ok(None) => {}
                    CliResult::Err(e) => {
                        if !matches!(want(&t, &sc.query), Want::Error) {
                            j.vio("unexpected_error", format!("{how}: failed: {e}"));
                        }
                    }
                    CliResult::Panic(m) => {
                        let v = Violation::new("panic", format!("{how}: {m}")).with("batch", sub).with("msg", super::c18::norm_msg(&m));
                        j.out.violations.push(v);
                    }
                    CliResult::Budget => {}
                }
                out.nontrivial = nz >= 2;
            }
            Mode::ChildSys { plan, to_stdout } => {
                out.engine = "child_process";
                let bin = match &env.quizx_bin {
                    Some(b) => b.clone(),
                    None => panic!("QSIM_QUIZX_BIN not set"),
                };
                let input = cli::prepare_input(&scratch, &header, &stmts, &InFault::None);
                let mut tail: Vec<String> = vec!["sim".into(), input.to_string_lossy().to_string()];
                tail.extend(argv_tail(sc));
                tail.extend(method_args(sc.method, sc.parallel));
                if !*to_stdout {
                    cli::precreate(&scratch.path("out.txt"), sc.pre, &stale_answer(sc));
                }
                let (res, events) = cli::run_child_sys(&bin, &tail, &scratch, plan, *to_stdout);
                out.steps += 1 + events.len() as u64;
                let mut fired = 0;
                let mut hard = false;
                for e in &events {
                    // stdout of a sampling run depends on the real RNG: fold only the shape of the calls
                    out.ev_str(&format!("{}{}", e.op, e.tok));
                    if let Some(name) = e.fault_name() {
                        out.fault(&name);
                        fired += 1;
                        hard |= e.is_hard_error();
                    }
                }
                if fired == 0 {
                    out.fault("sys_none_fired");
                }
                let how = format!("quizx {} ({}) under system-call plan {}", tail[2..].join(" "), if *to_stdout { "stdout" } else { "--out" }, plan.env());
                let mut j = Judge { sc, batch: sub, t: &t, out: &mut out };
                match res {
                    // the input file is complete on disk whatever the reads did: a reported success is
                    // judged against the whole program and must carry the whole answer
                    CliResult::Ok(Some(text)) => {
                        j.out.ev_str("ok");
                        j.out.probe(if hard { "sys_success_after_errno_judged" } else if fired > 0 { "sys_success_under_transparent_faults_judged" } else { "sys_success_no_fault_fired" });
                        let text = if *to_stdout { text.strip_suffix('\n').unwrap_or(&text).to_string() } else { text };
                        let before = j.out.event_digest;
                        let nb = j.out.violations.len();
                        j.text(&sc.query, &text, &how);
                        if matches!(sc.query, Query::Shots(_) | Query::DefaultTask) {
                            j.out.event_digest = before;
                        }
                        if fired > 0 {
                            for v in j.out.violations[nb..].iter_mut() {
                                v.class = format!("sys_{}", v.class);
                            }
                        }
                    }
                    CliResult::Ok(None) => j.vio("success_without_output", format!("{how}: exit 0 but the --out file cannot be read")),
                    CliResult::Err(e) => {
                        j.out.ev_str("err");
                        if fired == 0 {
                            if !matches!(want(&t, &sc.query), Want::Error) {
                                j.vio("unexpected_error", format!("{how}: failed: {e}"));
                            }
                        } else if hard {
                            j.out.probe("fault_led_to_reported_failure");
                        } else if !matches!(want(&t, &sc.query), Want::Error) {
                            j.out.probe("sys_transparent_fault_led_to_failure");
                        }
                    }
                    CliResult::Panic(m) => {
                        j.out.ev_str("panic");
                        if fired == 0 {
                            let v = Violation::new("panic", format!("{how}: {m}")).with("batch", sub).with("msg", super::c18::norm_msg(&m));
                            j.out.violations.push(v);
                        } else {
                            j.out.probe("fault_led_to_panic");
                        }
                    }
                    CliResult::Budget => {}
                }
                out.nontrivial = fired > 0;
            }
            Mode::ChildFaults(inf, outf) => {
                out.engine = "child_process";
                let bin = match &env.quizx_bin {
                    Some(b) => b.clone(),
                    None => panic!("QSIM_QUIZX_BIN not set"),
                };
                let input = cli::prepare_input(&scratch, &header, &stmts, inf);
                let mut tail: Vec<String> = vec!["sim".into(), input.to_string_lossy().to_string()];
                tail.extend(argv_tail(sc));
                tail.extend(method_args(sc.method, sc.parallel));
                if matches!(outf, OutFault::None | OutFault::Efbig(_)) {
                    cli::precreate(&scratch.path("out.txt"), sc.pre, &stale_answer(sc));
                }
                let (res, _p) = cli::run_child(&bin, &tail, &scratch, outf);
                out.steps += 1;
                out.fault(inf.name());
                out.fault(outf.name());
                let how = format!("quizx {} under {:?}/{:?}", tail[2..].join(" "), inf, outf);
                // which program did the tool actually see?
                let seen: Option<HCirc> = match inf {
                    InFault::None => Some(sc.circ.clone()),
                    // an empty file is not a program (the OPENQASM header is mandatory)
                    InFault::Empty => None,
                    InFault::TruncatedAtStatement(k) => {
                        let mut c = sc.circ.clone();
                        c.gates.truncate(*k);
                        if c.gates.is_empty() { None } else { Some(c) }
                    }
                    InFault::TruncatedMid(k) => {
                        // complete statements within the cut
                        let full = {
                            let mut s = header.clone();
                            for st in &stmts {
                                s += st;
                            }
                            s
                        };
                        let cut = (*k).min(full.len());
                        if cut < header.len() {
                            None
                        } else {
                            let mut off = header.len();
                            let mut kk = 0;
                            for st in &stmts {
                                // a statement is complete once its ';' is inside the cut
                                // (blanks or a comment may follow it)
                                if off + st.find(';').map(|i| i + 1).unwrap_or(st.len()) <= cut {
                                    kk += 1;
                                    off += st.len();
                                } else {
                                    break;
                                }
                            }
                            let mut c = sc.circ.clone();
                            c.gates.truncate(kk);
                            if c.gates.is_empty() { None } else { Some(c) }
                        }
                    }
                    InFault::Missing | InFault::IsDir => None,
                };
                // `--shots 0` produces the empty string: writing nothing cannot fail on
                // /dev/full or a file-size limit, so only path-level faults must fail then
                let empty_artefact = matches!(sc.query, Query::Shots(0));
                let must_fail_out = match outf {
                    OutFault::NoDir | OutFault::IsDir => true,
                    OutFault::Enospc => !empty_artefact,
                    // println! always writes at least the newline
                    OutFault::StdoutEnospc | OutFault::StdoutEpipe => true,
                    _ => false,
                };
                match res {
                    CliResult::Ok(text) => {
                        out.ev_str("ok");
                        // torn inside the header: still a (degenerate) valid program only if the cut
                        // falls on a statement boundary after the OPENQASM line
                        let cut_in_header = match inf {
                            InFault::TruncatedMid(k) if *k < header.trim_end().len() => {
                                let kept = &header[..*k];
                                !(kept.trim_end().ends_with(';') && kept.contains("OPENQASM 2.0;"))
                            }
                            _ => false,
                        };
                        if matches!(inf, InFault::Empty) || cut_in_header {
                            out.violations.push(Violation::new("success_despite_fault", format!("{how}: exit 0 although the input is not a complete program (empty, or torn inside its header)")).with("batch", sub).with("fault", inf.name()));
                        } else if matches!(inf, InFault::Missing | InFault::IsDir) {
                            out.violations.push(Violation::new("success_despite_fault", format!("{how}: exit 0 with an unreadable input")).with("batch", sub).with("fault", inf.name()));
                        } else if must_fail_out && !(matches!(outf, OutFault::Enospc) && text.is_some()) {
                            // (an ENOSPC target that the tool replaced by a complete file of its own is judged below)
                            // with a malformed-for-this-program query the tool may legitimately... no: exit 0 means an answer was produced
                            out.violations.push(Violation::new("success_despite_fault", format!("{how}: exit 0 although the result could not be written")).with("batch", sub).with("fault", outf.name()));
                        } else if matches!(outf, OutFault::StdoutClosed) {
                            out.probe("stdout_closed_not_judged");
                        } else if let (Some(seen), Some(text)) = (seen, text) {
                            let ts = truth(&seen);
                            let before = out.event_digest;
                            let mut j = Judge { sc, batch: sub, t: &ts, out: &mut out };
                            j.text(&sc.query, &text, &how);
                            if matches!(sc.query, Query::Shots(_) | Query::DefaultTask) {
                                out.event_digest = before;
                            }
                        } else {
                            out.probe("fault_success_not_judged");
                        }
                    }
                    CliResult::Err(e) => {
                        out.ev_str("err");
                        out.probe("fault_led_to_reported_failure");
                        if inf == &InFault::None && outf == &OutFault::None && !matches!(want(&t, &sc.query), Want::Error) {
                            out.violations.push(Violation::new("unexpected_error", format!("{how}: {e}")).with("batch", sub));
                        }
                    }
                    CliResult::Panic(m) => {
                        out.ev_str("panic");
                        out.probe("fault_led_to_panic");
                        if inf == &InFault::None && outf == &OutFault::None {
                            out.violations.push(Violation::new("panic", format!("{how}: {m}")).with("batch", sub).with("msg", super::c18::norm_msg(&m)));
                        }
                    }
                    CliResult::Budget => {}
                }
                out.nontrivial = true;
            }
        }
        out.ev(dec.digest);
        out.exec_trace = dec.values();
        for v in &out.violations {
            out.event_digest = mix(out.event_digest, hash_str(&v.key()));
        }
        out.sample = Some(json!({"qasm": sc.circ.to_qasm(), "query": sc.query, "method": format!("{:?}", sc.method), "parallel": sc.parallel, "mode": sc.mode}));
        out
    }

    fn shrink(&self, sc: &Sc) -> Vec<Sc> {
        let mut c = vec![];
        for i in 0..sc.circ.gates.len() {
            let mut cc = sc.circ.clone();
            cc.gates.remove(i);
            c.push(Sc { circ: cc, ..sc.clone() });
        }
        // drop the last qubit when unused and the query can be adapted
        let n = sc.circ.n;
        if n > 1 && !sc.circ.gates.iter().any(|g| g.qs.contains(&(n - 1))) {
            let mut cc = sc.circ.clone();
            cc.n = n - 1;
            cc.regs = vec![n - 1];
            let q = match &sc.query {
                Query::Amp(s) if s.len() == n => Query::Amp(s[..n - 1].to_string()),
                Query::Exp(s) if s.len() == n => Query::Exp(s[..n - 1].to_string()),
                q => q.clone(),
            };
            c.push(Sc { circ: cc, query: q, ..sc.clone() });
        }
        if let Query::Shots(k) = sc.query {
            if k > 1 {
                c.push(Sc { query: Query::Shots(k / 2), ..sc.clone() });
                c.push(Sc { query: Query::Shots(1), ..sc.clone() });
            }
        }
        if sc.parallel.is_some() {
            c.push(Sc { parallel: None, ..sc.clone() });
        }
        if sc.pre != 0 {
            c.push(Sc { pre: 0, ..sc.clone() });
        }
        if sc.history != 0 {
            c.push(Sc { history: 0, ..sc.clone() });
        }
        if sc.method != Method::Default {
            c.push(Sc { method: Method::Default, ..sc.clone() });
        }
        // simpler gates
        for i in 0..sc.circ.gates.len() {
            let g = &sc.circ.gates[i];
            let simpler = match g.k {
                GK::CCX | GK::CCZ => Some((GK::CZ, g.qs[..2].to_vec())),
                GK::XCX => Some((GK::CX, g.qs.clone())),
                GK::Rx(..) => Some((GK::H, g.qs.clone())),
                _ => None,
            };
            if let Some((k, qs)) = simpler {
                let mut cc = sc.circ.clone();
                cc.gates[i] = HGate { k, qs };
                c.push(Sc { circ: cc, ..sc.clone() });
            }
        }
        if let Mode::ChildSys { plan, to_stdout } = &sc.mode {
            for p in cli::shrink_sysplan(plan) {
                c.push(Sc { mode: Mode::ChildSys { plan: p, to_stdout: *to_stdout }, ..sc.clone() });
            }
        }
        c
    }
}

/// S4: drift of the printed bits against their conditional probabilities, per qubit position and
/// over all draws.  For every printed sample and every position k the reference model gives
/// c = P(bit k = 1 | the k bits printed before it); over the N draws of a group whose c is strictly
/// between 0 and 1, Hoeffding's inequality bounds P(|sum(bit - c)| >= t) by 2 exp(-2 t^2 / N).  A
/// group is reported when that bound is below 1e-12.  Works for registers of any width (only the
/// factor holding the next qubit is needed), needs no hook, and is deterministic because the
/// decider owns the sampler's randomness.
fn drift(j: &mut Judge, text: &str, how: &str) {
    let t = j.t;
    if t.n == 0 {
        return;
    }
    let lines: Vec<&str> = text.trim_end_matches('\n').split('\n').collect();
    if lines.len() < 20 {
        return;
    }
    let mut d = vec![0.0f64; t.n + 1];
    let mut n = vec![0usize; t.n + 1];
    for l in &lines {
        let bits: Option<Vec<bool>> = l.chars().map(|c| match c { '0' => Some(false), '1' => Some(true), _ => None }).collect();
        let b = match bits {
            Some(b) if b.len() == t.n => b,
            _ => return, // malformed samples are S1's business
        };
        for k in 0..t.n {
            let (pp, p1) = t.next_bit(&b[..k]);
            if pp <= 1e-12 {
                break; // impossible prefix: S1 reports it
            }
            let c = p1 / pp;
            if c > 1e-9 && c < 1.0 - 1e-9 {
                let x = if b[k] { 1.0 - c } else { -c };
                d[k] += x;
                n[k] += 1;
                d[t.n] += x;
                n[t.n] += 1;
            }
        }
    }
    j.out.probe("drift_checked");
    for k in 0..=t.n {
        if n[k] == 0 {
            continue;
        }
        let bound = 2.0 * (-2.0 * d[k] * d[k] / n[k] as f64).exp();
        if bound < 1e-12 {
            let what = if k == t.n { "all positions together".to_string() } else { format!("bit {k}") };
            j.vio(
                "samples_drift_from_conditionals",
                format!("{how}: {} samples, {what}: {} non-deterministic draws, sum of (bit - conditional probability) = {:.1} (Hoeffding bound {:.1e})", lines.len(), n[k], d[k], bound),
            );
            return;
        }
    }
}

/// S3: chi-square of the printed samples against the Born distribution.
fn chi_square(j: &mut Judge, text: &str, how: &str) {
    let t = j.t;
    if t.n == 0 {
        return;
    }
    let lines: Vec<&str> = text.trim_end_matches('\n').split('\n').collect();
    let total = lines.len() as f64;
    if total < 100.0 {
        return;
    }
    let mut counts = vec![0usize; t.probs.len()];
    for l in &lines {
        let bits: Option<Vec<bool>> = l.chars().map(|c| match c { '0' => Some(false), '1' => Some(true), _ => None }).collect();
        if let Some(b) = bits {
            if b.len() == t.n {
                counts[gatesim::idx_of(&b)] += 1;
            }
        }
    }
    let mut chi = 0.0;
    let mut cells = 0;
    for i in 0..t.probs.len() {
        if t.zero[i] {
            continue;
        }
        let e = total * t.probs[i];
        chi += (counts[i] as f64 - e).powi(2) / e;
        cells += 1;
    }
    j.out.probe("chi_square_checked");
    if cells >= 2 {
        let dof = (cells - 1) as f64;
        let p = gammq(dof / 2.0, chi / 2.0);
        j.out.ev(((chi * 1000.0) as u64) ^ 0xc41);
        if p < 1e-12 {
            j.vio(
                "samples_not_born_distributed",
                format!("{how}: {} samples, chi-square {:.1} on {} degrees of freedom (p = {:.2e}); distribution {}", lines.len(), chi, dof, p, show_dist(t)),
            );
        }
    }
}
