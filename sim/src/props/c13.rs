//! C13 — the qgraph JSON encoding round-trips diagrams: under every hash order
//! in encoder and decoder, and (file form) under disk faults a reported
//! success means a complete, decodable, isomorphic file.

use crate::decider::{hash_str, mix, Decider};
use crate::framework::*;
use crate::gen::{self, GSpec};
use crate::iso;
use crate::ring::Zw;
use crate::simcore::{with_sim, Caught, Core};
use crate::zxeval::{Dg, Sc as DSc, Val, DV, VT};
use quizx::graph::GraphLike;
use serde::{Deserialize, Serialize};
use serde_json::{json, Value};

#[derive(Clone, Debug, Serialize, Deserialize, PartialEq)]
pub enum Fault {
    None,
    OutEnospc,
    /// RLIMIT_FSIZE = this many bytes in a child process (torn write at that offset)
    OutEfbig(u64),
    OutNoDir,
    OutIsDir,
    /// write_graph in a child process under the system-call seam (short writes, EINTR, errno
    /// failures at decider-chosen calls), then an undisturbed read
    SysWrite(crate::cli::SysPlan),
    /// an undisturbed write_graph, then read_graph in a child process under the system-call seam
    /// (short reads, EINTR, errno failures)
    SysRead(crate::cli::SysPlan),
}

#[derive(Clone, Debug, Serialize, Deserialize, PartialEq)]
pub enum Form {
    /// encode_graph / decode_graph, this many independent decodes
    Str(usize),
    /// serde_json::to_string(&hash_graph) / from_str
    Serde,
    /// write_graph / read_graph
    File(Fault),
    /// a history of write_graph calls into one directory (`Sc::more`: further diagrams and the file
    /// names they go to; names share stems and extensions, and a name may be written twice), then
    /// every file is read back: each must hold the diagram written to it last
    FileMulti,
    /// the diagrams of `g` and `Sc::more` are written by concurrent threads of one child process
    /// to different names in one directory; the system-call seam's thread scheduler lets exactly
    /// one of them run at a time and switches at every file operation according to `picks`
    FileConcurrent { picks: Vec<u8>, plan: crate::cli::SysPlan },
}

#[derive(Clone, Debug, Serialize, Deserialize, PartialEq)]
pub struct Sc {
    pub g: GSpec,
    pub hash_backend: bool,
    pub decode_hash_backend: bool,
    pub form: Form,
    /// file form: what is at the target path before write_graph runs: 0 nothing, 1 a longer
    /// file of garbage, 2 a longer valid qgraph file (of another diagram)
    #[serde(default)]
    pub pre: u8,
    /// FileMulti: the file name of `g` comes first, then (diagram, file name) of the later writes
    #[serde(default)]
    pub more: Vec<(GSpec, String)>,
    #[serde(default)]
    pub first_name: String,
}

#[derive(Clone, Copy)]
pub struct C13;

/// File names for the multi-file histories: same stem with other extensions, the scratch names a
/// write-to-temporary-then-rename implementation might choose, a backup name, another stem.
const NAMES: &[&str] = &["g.qgraph", "g.json", "g.tmp", "g", "g.0", "g.1", "g.qgraph.tmp", "g.qgraph.bak", ".g.qgraph.tmp", "g.tmp.qgraph", "h.qgraph", "g.qgraph~", "g.new", "tmp", "g q.qgraph", "ünï cödé.qgraph", "g.qgraph.qgraph", "G.QGRAPH"];

fn phase_close(a: &DV, b: &DV) -> bool {
    // exact equality modulo 2 of a.num/a.den and b.num/b.den
    let lhs = a.num as i128 * b.den as i128 - b.num as i128 * a.den as i128;
    let m = 2 * a.den as i128 * b.den as i128;
    if lhs.rem_euclid(m) == 0 {
        return true;
    }
    if a.den > 256 {
        // outside the exactness clause: the encoder limits denominators to 256
        let x = a.num as f64 / a.den as f64;
        let y = b.num as f64 / b.den as f64;
        let mut dlt = (x - y).rem_euclid(2.0);
        if dlt > 1.0 {
            dlt = 2.0 - dlt;
        }
        return dlt <= 4e-3; // 1/256: only coarse agreement is demanded beyond the exactness clause
    }
    false
}

/// Coordinates are floats printed and parsed by serde_json, whose default
/// parser is not correctly rounded in the last bit; the property asks that
/// coordinates be preserved, which is read as "to floating-point tolerance".
fn coord_close(x: f64, y: f64) -> bool {
    x == y || (x - y).abs() <= 1e-12 * x.abs().max(y.abs()).max(1.0)
}

fn compat(a: &DV, b: &DV) -> bool {
    if a.ty != b.ty {
        return false;
    }
    if !coord_close(a.qubit, b.qubit) || !coord_close(a.row, b.row) {
        return false;
    }
    match a.ty {
        VT::B => true,
        _ => phase_close(a, b),
    }
}

fn scalar_check(orig: &GSpec, got: &DSc, got_exact: Option<&Zw>) -> Result<(), String> {
    let exact_class = orig.one_plus.is_empty() && orig.int_factor == [1, 0, 0, 0];
    if exact_class {
        let want = orig.scalar_exact().unwrap();
        match got {
            DSc::Exact(z) if *z == want => Ok(()),
            // flagged approximate, but the dyadic coefficients are exactly the wanted value
            DSc::Float(..) if got_exact.map(|z| *z == want).unwrap_or(false) => Ok(()),
            other => Err(format!(
                "scalar sqrt2^{} * w^{} must round-trip exactly, decoded {:?} (want {})",
                orig.sqrt2_pow,
                orig.omega_pow,
                other,
                want.show()
            )),
        }
    } else {
        // magnitudes beyond the range of f64 (|s| up to 2^1150): both sides are scaled by the same
        // power of two before they are converted (the decoded scalar is available as exact dyadic
        // coefficients)
        let shift: i64 = if orig.sqrt2_pow.abs() > 1800 && got_exact.is_some() { (orig.sqrt2_pow / 2) as i64 } else { 0 };
        let (wr, wi) = if shift != 0 {
            let mut o2 = orig.clone();
            o2.sqrt2_pow -= (2 * shift) as i32;
            match o2.scalar_exact() {
                Some(z) => z.to_c64(),
                None => o2.scalar_c64(),
            }
        } else {
            match orig.scalar_exact() {
                Some(z) => z.to_c64(),
                None => orig.scalar_c64(),
            }
        };
        let (gr, gi) = match (shift, got_exact) {
            (0, _) | (_, None) => got.to_c64(),
            (sh, Some(z)) => Zw { c: z.c.clone(), e: z.e + sh }.to_c64(),
        };
        let m = (wr * wr + wi * wi).sqrt();
        let dlt = ((wr - gr).powi(2) + (wi - gi).powi(2)).sqrt();
        if dlt <= 1e-9 * m.max(1e-300) {
            Ok(())
        } else {
            Err(format!(
                "scalar {:.15}{:+.15}i decoded as {:.15}{:+.15}i (relative error {:.3e}, tolerance 1e-9)",
                wr, wi, gr, gi, dlt / m
            ))
        }
    }
}

fn numbering_digest(map: &std::collections::BTreeMap<usize, usize>) -> u64 {
    let mut h = 3u64;
    for (a, b) in map {
        h = mix(h, (*a as u64) << 32 | *b as u64);
    }
    h
}

struct Ctx<'a> {
    sc: &'a Sc,
    orig: Dg,
    out: &'a mut RunOut,
    tensor: Option<Vec<crate::zxeval::Val>>,
}

/// A damaged copy of an encoded diagram (see the call site).
fn corrupt_document(t: &str, kind: usize) -> String {
    if kind == 0 {
        return t.get(..t.len() / 2).unwrap_or("").to_string();
    }
    let mut v: Value = match serde_json::from_str(t) {
        Ok(v) => v,
        Err(_) => return String::new(),
    };
    match kind {
        1 => {
            // the last edge ends at a name that does not exist
            if let Some(es) = v.get_mut("undir_edges").and_then(|e| e.as_object_mut()) {
                if let Some((_, e)) = es.iter_mut().last() {
                    e["tgt"] = json!("no-such-vertex");
                }
            }
        }
        2 => {
            // a spider phase that does not parse
            if let Some(ns) = v.get_mut("node_vertices").and_then(|e| e.as_object_mut()) {
                if let Some((_, n)) = ns.iter_mut().last() {
                    n["data"]["value"] = json!("pi/zero");
                }
            }
        }
        3 => {
            // the scalar's phase does not parse
            if let Some(sc) = v.get("scalar").and_then(|s| s.as_str()) {
                let bad = sc.replacen("\"phase\":\"", "\"phase\":\"zz", 1);
                v["scalar"] = json!(bad);
            }
        }
        4 => {
            // a vertex that edges still refer to is gone
            if let Some(ns) = v.get_mut("node_vertices").and_then(|e| e.as_object_mut()) {
                if let Some(k) = ns.keys().next().cloned() {
                    ns.remove(&k);
                }
            }
        }
        _ => {
            // a boundary without its index
            if let Some(ws) = v.get_mut("wire_vertices").and_then(|e| e.as_object_mut()) {
                if let Some((_, w)) = ws.iter_mut().next() {
                    if let Some(a) = w.get_mut("annotation").and_then(|a| a.as_object_mut()) {
                        a.remove("input");
                        a.remove("output");
                        a.insert("input".into(), json!("first"));
                    }
                }
            }
        }
    }
    v.to_string()
}

fn decode_any(text: &str, hash: bool) -> Result<Dg, String> {
    if hash {
        quizx::json::decode_graph::<quizx::hash_graph::Graph>(text).map(|g| Dg::of(&g)).map_err(|e| e.to_string())
    } else {
        quizx::json::decode_graph::<quizx::vec_graph::Graph>(text).map(|g| Dg::of(&g)).map_err(|e| e.to_string())
    }
}

impl C13 {
    fn exec<G: GraphLike>(&self, sc: &Sc, exec: Decider, out: &mut RunOut, env: &Env) -> Decider {
        let mut dec = exec;
        let g: G = sc.g.build();
        let orig = sc.g.to_dg();
        let through = sc.g.inputs.iter().any(|v| sc.g.outputs.contains(v));
        if through {
            out.probe("has.boundary_that_is_input_and_output");
        }
        let evaluable = !through
            && orig.boundary().len() <= 4
            && sc.g.verts.iter().all(|v| v.2 <= 256)
            && orig.verts.iter().all(|v| !matches!(v.ty, VT::Other(_)))
            && orig.cost_classes().map(|c| c <= 12).unwrap_or(false);
        let tensor = if evaluable { orig.tensor(16).ok() } else { None };
        let mut ctx = Ctx { sc, orig, out, tensor };
        match &sc.form {
            Form::Str(k) => {
                // call history: earlier encode / decode calls on this (fresh) thread - another
                // diagram, and a decode that fails - before the round trip under test; state that
                // survives between calls must not reach it
                if !sc.more.is_empty() {
                    ctx.out.probe("codec_call_history");
                    for (spec, _) in &sc.more {
                        let kind = dec.choose("hist.corrupt", 6);
                        let core = Core::new(dec, 1);
                        let other: G = spec.build();
                        let hb = sc.decode_hash_backend;
                        let (_res, core) = with_sim(core, move || {
                            let t = quizx::json::encode_graph(&other).unwrap_or_default();
                            let _ = decode_any(&t, hb);
                            // a decode that fails: torn text (a syntax error, before any table is
                            // built), or a document that is valid JSON but breaks half-way through
                            // the decoder - a dangling edge end, a phase or scalar that does not
                            // parse, a vertex that edges still refer to removed
                            let bad = corrupt_document(&t, kind);
                            let _ = decode_any(&bad, hb);
                        });
                        dec = core.dec;
                        ctx.out.steps += 1;
                    }
                }
                let core = Core::new(dec, 1);
                let gg = g.clone();
                let (res, core) = with_sim(core, move || quizx::json::encode_graph(&gg));
                ctx.out.count("hash_keys", core.stats.hash_keys);
                ctx.out.distinct.insert("encode_hash_order".into(), core.stats.hash_digest);
                dec = core.dec;
                ctx.out.steps += 1;
                let text = match res {
                    Caught::Ok(Ok(t)) => t,
                    Caught::Ok(Err(e)) => {
                        ctx.out.violations.push(Violation::new("encode_failed", format!("encode_graph returned Err: {e}")));
                        return dec;
                    }
                    Caught::Panic(m) => {
                        ctx.out.violations.push(
                            Violation::new("panic", format!("encode_graph: {m}")).with("where", "encode").with("msg", super::c18::norm_msg(&m)),
                        );
                        return dec;
                    }
                    Caught::Budget => return dec,
                };
                ctx.out.distinct.insert("json_text".into(), hash_str(&text));
                ctx.out.ev(hash_str(&text));
                let mut decs: Vec<Dg> = vec![];
                for i in 0..*k {
                    let core = Core::new(dec, 1);
                    let t2 = text.clone();
                    let hb = if i % 2 == 0 { sc.decode_hash_backend } else { !sc.decode_hash_backend };
                    let (res, core) = with_sim(core, move || {
                        if hb {
                            quizx::json::decode_graph::<quizx::hash_graph::Graph>(&t2).map(|g| (Dg::of(&g), true))
                        } else {
                            quizx::json::decode_graph::<quizx::vec_graph::Graph>(&t2).map(|g| (Dg::of(&g), false))
                        }
                    });
                    ctx.out.count("hash_keys", core.stats.hash_keys);
                    ctx.out.distinct.insert(format!("decode_hash_order.{i}"), core.stats.hash_digest);
                    dec = core.dec;
                    ctx.out.steps += 1;
                    match res {
                        Caught::Ok(Ok((d2, _))) => {
                            // judge through the same path as a graph: rebuild a Dg view
                            if let Some(d) = ctx.judge_dg(d2, &format!("decode#{i}")) {
                                decs.push(d);
                            }
                        }
                        Caught::Ok(Err(e)) => {
                            ctx.out.violations.push(Violation::new("decode_failed", format!("decode_graph of encode_graph's output returned Err: {e}")));
                        }
                        Caught::Panic(m) => {
                            ctx.out.violations.push(
                                Violation::new("panic", format!("decode_graph: {m}")).with("where", "decode").with("msg", super::c18::norm_msg(&m)),
                            );
                        }
                        Caught::Budget => {}
                    }
                }
                // second generation: a decoded diagram is a diagram like any other - exporting IT again
                // and importing that must still give the original (the decoder leaves its own marks
                // on a graph: another numbering, an 'approximate' flag on the scalar, ...)
                if ctx.out.violations.is_empty() && sc.pre == 1 {
                    ctx.out.probe("second_generation_round_trip");
                    let core = Core::new(dec, 1);
                    let t2 = text.clone();
                    let (hb1, hb2) = (sc.decode_hash_backend, sc.hash_backend);
                    let (res, core) = with_sim(core, move || -> Result<Dg, String> {
                        let again = if hb1 {
                            let g1 = quizx::json::decode_graph::<quizx::hash_graph::Graph>(&t2).map_err(|e| e.to_string())?;
                            quizx::json::encode_graph(&g1).map_err(|e| e.to_string())?
                        } else {
                            let g1 = quizx::json::decode_graph::<quizx::vec_graph::Graph>(&t2).map_err(|e| e.to_string())?;
                            quizx::json::encode_graph(&g1).map_err(|e| e.to_string())?
                        };
                        decode_any(&again, hb2)
                    });
                    dec = core.dec;
                    ctx.out.steps += 3;
                    match res {
                        Caught::Ok(Ok(d3)) => {
                            ctx.judge_dg(d3, "second_generation");
                        }
                        Caught::Ok(Err(e)) => ctx.out.violations.push(Violation::new("decode_failed", format!("second generation (decode, encode, decode): {e}")).with("form", "second_generation")),
                        Caught::Panic(m) => ctx.out.violations.push(
                            Violation::new("panic", format!("second generation (decode, encode, decode): {m}")).with("where", "second_generation").with("msg", super::c18::norm_msg(&m)),
                        ),
                        Caught::Budget => {}
                    }
                }
                // oracle-free: decodes under different hash orders are isomorphic to each other
                for i in 1..decs.len() {
                    let exact = |a: &DV, b: &DV| a.ty == b.ty && a.qubit == b.qubit && a.row == b.row && (a.ty == VT::B || (a.num == b.num && a.den == b.den));
                    if let Err(why) = iso::anchored_iso(&decs[0], &decs[i], &exact) {
                        ctx.out.violations.push(Violation::new(
                            "decodes_differ_between_hash_orders",
                            format!("two decodes of the same text under different hash orders are not isomorphic: {why}"),
                        ));
                    }
                    // (compared through the exact dyadic coefficients: beyond 2^1024 the float view of
                    // a scalar is inf / NaN, and NaN != NaN)
                    let differ = match (&decs[0].scalar_dyadic, &decs[i].scalar_dyadic) {
                        (Some(a), Some(b)) => a != b,
                        _ => decs[0].scalar != decs[i].scalar,
                    };
                    if differ {
                        ctx.out.violations.push(Violation::new(
                            "decodes_differ_between_hash_orders",
                            "two decodes of the same text carry different scalars".to_string(),
                        ));
                    }
                }
            }
            Form::Serde => {
                let hg: quizx::hash_graph::Graph = sc.g.build();
                let core = Core::new(dec, 1);
                let (res, core) = with_sim(core, move || serde_json::to_string(&hg));
                dec = core.dec;
                ctx.out.steps += 1;
                let text = match res {
                    Caught::Ok(Ok(t)) => t,
                    Caught::Ok(Err(e)) => {
                        ctx.out.violations.push(Violation::new("encode_failed", format!("serde_json::to_string(&hash_graph) returned Err: {e}")));
                        return dec;
                    }
                    Caught::Panic(m) => {
                        ctx.out.violations.push(Violation::new("panic", format!("serde serialise: {m}")).with("where", "serde_ser").with("msg", super::c18::norm_msg(&m)));
                        return dec;
                    }
                    Caught::Budget => return dec,
                };
                ctx.out.ev(hash_str(&text));
                let core = Core::new(dec, 1);
                let (res, core) = with_sim(core, move || serde_json::from_str::<quizx::hash_graph::Graph>(&text).map(|g| Dg::of(&g)));
                dec = core.dec;
                ctx.out.steps += 1;
                match res {
                    Caught::Ok(Ok(d2)) => {
                        ctx.judge_dg(d2, "serde");
                    }
                    Caught::Ok(Err(e)) => ctx.out.violations.push(Violation::new("decode_failed", format!("serde from_str returned Err: {e}"))),
                    Caught::Panic(m) => ctx.out.violations.push(Violation::new("panic", format!("serde deserialise: {m}")).with("where", "serde_de").with("msg", super::c18::norm_msg(&m))),
                    Caught::Budget => {}
                }
            }
            Form::FileMulti => {
                let scratch = crate::cli::Scratch::new(&env.scratch, "c13m");
                let dir = scratch.dir.clone();
                // (name, spec) in write order
                let mut writes: Vec<(&str, &GSpec)> = vec![(sc.first_name.as_str(), &sc.g)];
                writes.extend(sc.more.iter().map(|(g, n)| (n.as_str(), g)));
                let mut last: std::collections::BTreeMap<&str, &GSpec> = Default::default();
                ctx.out.probe("file_multi_history");
                for (i, (name, spec)) in writes.iter().enumerate() {
                    let path = dir.join(name);
                    let core = Core::new(dec, 1);
                    let gi: G = spec.build();
                    let p2 = path.clone();
                    let (res, core) = with_sim(core, move || quizx::json::write_graph(&gi, &p2));
                    dec = core.dec;
                    ctx.out.steps += 1;
                    match res {
                        Caught::Ok(Ok(())) => {
                            if last.insert(name, spec).is_some() {
                                ctx.out.probe("file_multi_name_rewritten");
                            }
                        }
                        Caught::Ok(Err(e)) => {
                            ctx.out.violations.push(Violation::new("write_failed_without_fault", format!("write #{i} of a history (write_graph to '{name}' after {:?}) failed with no fault injected: {e}", writes[..i].iter().map(|w| w.0).collect::<Vec<_>>())).with("form", "file_multi"));
                            return dec;
                        }
                        Caught::Panic(m) => {
                            ctx.out.violations.push(Violation::new("panic", format!("write_graph to '{name}' (write #{i} of a history): {m}")).with("where", "write_graph").with("msg", super::c18::norm_msg(&m)));
                            return dec;
                        }
                        Caught::Budget => return dec,
                    }
                }
                // every name holds the diagram written to it last
                for (name, spec) in last {
                    let path = dir.join(name);
                    let core = Core::new(dec, 1);
                    let hb = sc.decode_hash_backend;
                    let p2 = path.clone();
                    let (res, core) = with_sim(core, move || {
                        if !p2.exists() {
                            return Err("the file is gone".to_string());
                        }
                        if hb {
                            quizx::json::read_graph::<quizx::hash_graph::Graph>(&p2).map(|g| Dg::of(&g)).map_err(|e| e.to_string())
                        } else {
                            quizx::json::read_graph::<quizx::vec_graph::Graph>(&p2).map(|g| Dg::of(&g)).map_err(|e| e.to_string())
                        }
                    });
                    dec = core.dec;
                    ctx.out.steps += 1;
                    let order: Vec<&str> = writes.iter().map(|w| w.0).collect();
                    match res {
                        Caught::Ok(Ok(d2)) => {
                            let sub_sc = Sc { g: spec.clone(), more: vec![], ..sc.clone() };
                            let mut sub = Ctx { sc: &sub_sc, orig: spec.to_dg(), out: &mut *ctx.out, tensor: None };
                            let before = sub.out.violations.len();
                            sub.judge_dg(d2, "file_multi");
                            for v in sub.out.violations[before..].iter_mut() {
                                v.detail = format!("after the writes {:?}, file '{name}': {}", order, v.detail);
                            }
                        }
                        Caught::Ok(Err(e)) => ctx.out.violations.push(
                            Violation::new("written_file_lost_or_damaged_by_later_write", format!("after the successful writes {:?}, '{name}' cannot be read back: {e}", order)).with("form", "file_multi"),
                        ),
                        Caught::Panic(m) => ctx.out.violations.push(
                            Violation::new("written_file_lost_or_damaged_by_later_write", format!("after the successful writes {:?}, read_graph('{name}') panics: {m}", order)).with("form", "file_multi"),
                        ),
                        Caught::Budget => {}
                    }
                    if !ctx.out.violations.is_empty() {
                        break;
                    }
                }
                drop(scratch);
            }
            Form::FileConcurrent { picks, plan } => {
                let scratch = crate::cli::Scratch::new(&env.scratch, "c13c");
                let dir = scratch.dir.clone();
                let io = dir.join("io");
                let _ = std::fs::create_dir_all(&io);
                ctx.out.engine = "child_process";
                ctx.out.probe("file_concurrent_writers");
                let mut writes: Vec<(&str, &GSpec)> = vec![(sc.first_name.as_str(), &sc.g)];
                writes.extend(sc.more.iter().map(|(g, n)| (n.as_str(), g)));
                // the last party is a READER in a third of the runs: its file is complete before the
                // concurrent phase starts, and it must read its own diagram back whatever the writers do
                let reader: Option<usize> = if writes.len() >= 2 && sc.pre == 2 { Some(writes.len() - 1) } else { None };
                if let Some(ri) = reader {
                    ctx.out.probe("file_concurrent_with_reader");
                    let core = Core::new(dec, 1);
                    let gi: G = writes[ri].1.build();
                    let p2 = io.join(writes[ri].0);
                    let (res, core) = with_sim(core, move || quizx::json::write_graph(&gi, &p2));
                    dec = core.dec;
                    if !matches!(res, Caught::Ok(Ok(()))) {
                        ctx.out.violations.push(Violation::new("write_failed_without_fault", format!("write_graph to '{}' failed with no fault injected", writes[ri].0)).with("form", "file_concurrent"));
                        return dec;
                    }
                }
                let spec: Vec<(GSpec, String, bool, bool)> = writes
                    .iter()
                    .enumerate()
                    .map(|(i, (n, g))| ((*g).clone(), io.join(n).to_string_lossy().to_string(), if Some(i) == reader { sc.decode_hash_backend } else { sc.hash_backend }, Some(i) == reader))
                    .collect();
                let specf = dir.join("spec.json");
                std::fs::write(&specf, serde_json::to_string(&spec).unwrap()).expect("scratch write");
                let child_seed = dec.draw64("child.seed");
                let mut o = std::process::Command::new(&env.self_exe);
                o.arg("--child-write-concurrent").arg(&specf).arg(child_seed.to_string()).stdin(std::process::Stdio::null());
                let log = crate::cli::arm_sys(&mut o, &io, plan, false);
                o.env("QFAULT_SCHED", format!("n={};s={}", writes.len(), picks.iter().map(|p| p.to_string()).collect::<Vec<_>>().join(",")));
                let o = crate::cli::output_locked(&mut o).expect("spawn child");
                let events = crate::cli::parse_syslog(&log);
                let _ = std::fs::remove_file(&log);
                // the interleaving that actually happened: sequence of (thread, operation)
                let mut il = 0x11u64;
                let mut switches = 0;
                let mut prev = -2;
                let mut fired = 0;
                for e in &events {
                    il = mix(il, ((e.thread as i64 as u64) << 8) ^ e.op as u64);
                    ctx.out.ev_str(&e.digest_text());
                    if e.thread != prev && prev != -2 {
                        switches += 1;
                    }
                    prev = e.thread;
                    if let Some(name) = e.fault_name() {
                        ctx.out.fault(&name);
                        fired += 1;
                    }
                }
                ctx.out.distinct.insert("io_interleaving".into(), il);
                ctx.out.count("io_thread_switches", switches);
                ctx.out.steps += events.len() as u64;
                if switches >= 2 {
                    ctx.out.probe("file_concurrent_interleaved");
                }
                let txt = String::from_utf8_lossy(&o.stdout).to_string();
                let order: Vec<&str> = writes.iter().map(|w| w.0).collect();
                if !o.status.success() || !txt.contains("DONE") {
                    panic!("harness: concurrent-writer child failed: status {:?} stdout {txt} stderr {}", o.status, String::from_utf8_lossy(&o.stderr));
                }
                for (i, (name, spec)) in writes.iter().enumerate() {
                    let line = txt.lines().find(|l| l.starts_with(&format!("RESULT {i} "))).unwrap_or("");
                    if !line.contains(" ok") {
                        if fired == 0 && Some(i) == reader {
                            ctx.out.violations.push(Violation::new("complete_file_unreadable_while_others_write", format!("parties {:?}: read_graph of '{name}', which was complete before the others started writing to OTHER names, failed: {line}", order)).with("form", "file_concurrent"));
                        } else if fired == 0 {
                            ctx.out.violations.push(Violation::new("write_failed_without_fault", format!("concurrent writers {:?}: write_graph to '{name}' failed with no fault fired: {line}", order)).with("form", "file_concurrent"));
                        } else {
                            ctx.out.probe("fault_led_to_reported_failure");
                        }
                        continue;
                    }
                    if Some(i) == reader {
                        // the reader's own view, handed back through an untracked file
                        match std::fs::read_to_string(dir.join(format!("read-{i}.json"))).ok().and_then(|t| Dg::from_wire(&t)) {
                            Some(d2) => {
                                let sub_sc = Sc { g: (*spec).clone(), more: vec![], ..sc.clone() };
                                let mut sub = Ctx { sc: &sub_sc, orig: spec.to_dg(), out: &mut *ctx.out, tensor: None };
                                let before = sub.out.violations.len();
                                sub.judge_dg(d2, "file_concurrent_reader");
                                for v in sub.out.violations[before..].iter_mut() {
                                    v.detail = format!("parties {:?} (the last one reads '{name}', complete before the others started writing): {}", order, v.detail);
                                }
                            }
                            None => panic!("harness: reader reported ok but left no dump"),
                        }
                        continue;
                    }
                    // reported success: the file must hold this writer's diagram, whatever the others did
                    let path = io.join(name);
                    let core = Core::new(dec, 1);
                    let hb = sc.decode_hash_backend;
                    let (res, core) = with_sim(core, move || {
                        if !path.exists() {
                            return Err("the file does not exist".to_string());
                        }
                        if hb {
                            quizx::json::read_graph::<quizx::hash_graph::Graph>(&path).map(|g| Dg::of(&g)).map_err(|e| e.to_string())
                        } else {
                            quizx::json::read_graph::<quizx::vec_graph::Graph>(&path).map(|g| Dg::of(&g)).map_err(|e| e.to_string())
                        }
                    });
                    dec = core.dec;
                    ctx.out.steps += 1;
                    match res {
                        Caught::Ok(Ok(d2)) => {
                            let sub_sc = Sc { g: (*spec).clone(), more: vec![], ..sc.clone() };
                            let mut sub = Ctx { sc: &sub_sc, orig: spec.to_dg(), out: &mut *ctx.out, tensor: None };
                            let before = sub.out.violations.len();
                            sub.judge_dg(d2, "file_concurrent");
                            for v in sub.out.violations[before..].iter_mut() {
                                v.detail = format!("concurrent writers {:?}, file '{name}': {}", order, v.detail);
                            }
                        }
                        Caught::Ok(Err(e)) => ctx.out.violations.push(
                            Violation::new("concurrent_writer_reported_success_but_file_bad", format!("concurrent writers {:?} (different names, one directory): write_graph to '{name}' returned Ok but the file cannot be read back: {e}", order)).with("form", "file_concurrent"),
                        ),
                        Caught::Panic(m) => ctx.out.violations.push(
                            Violation::new("concurrent_writer_reported_success_but_file_bad", format!("concurrent writers {:?}: read_graph('{name}') panics: {m}", order)).with("form", "file_concurrent"),
                        ),
                        Caught::Budget => {}
                    }
                }
                drop(scratch);
            }
            Form::File(fault) => {
                let scratch = crate::cli::Scratch::new(&env.scratch, "c13");
                let dir = scratch.dir.clone();
                let path = match fault {
                    Fault::None | Fault::OutEfbig(_) => dir.join("g.qgraph"),
                    Fault::SysWrite(_) | Fault::SysRead(_) => {
                        // only this sub-directory is tracked by the shim (the child's own spec and
                        // result files live next to it)
                        let _ = std::fs::create_dir_all(dir.join("io"));
                        dir.join("io").join("g.qgraph")
                    }
                    // a symbolic link to /dev/full, never the device node itself (see cli::enospc_target)
                    Fault::OutEnospc => crate::cli::enospc_target(&scratch, "full.qgraph"),
                    Fault::OutNoDir => dir.join("missing").join("g.qgraph"),
                    Fault::OutIsDir => dir.clone(),
                };
                let fname = match fault {
                    Fault::None => "none",
                    Fault::OutEnospc => "out_enospc",
                    Fault::OutEfbig(_) => "out_efbig",
                    Fault::OutNoDir => "out_nodir",
                    Fault::OutIsDir => "out_is_dir",
                    Fault::SysWrite(_) => "sys_write_plan",
                    Fault::SysRead(_) => "sys_read_plan",
                };
                // (faults that actually fired, any of them an errno failure) under the system-call seam
                let mut sys_fired: Option<(usize, bool)> = None;
                if matches!(fault, Fault::None | Fault::OutEfbig(_) | Fault::SysWrite(_)) && sc.pre > 0 {
                    // something longer is already there: write_graph must replace it entirely
                    let filler = if sc.pre == 1 {
                        "#".repeat(40_000)
                    } else {
                        let mut big = GSpec::empty();
                        for i in 0..300 {
                            let v = big.add(1, 1, 4);
                            if i > 0 {
                                big.edges.push((v - 1, v, i % 2 == 0));
                            }
                        }
                        let bg: quizx::vec_graph::Graph = big.build();
                        quizx::json::encode_graph(&bg).unwrap_or_default()
                    };
                    std::fs::write(&path, filler).expect("scratch write");
                    ctx.out.probe("file_preexisting_longer_content");
                }
                // result of the write: Ok / Err / panic
                let wrote: Result<(), String> = if let Fault::SysWrite(plan) = fault {
                    ctx.out.engine = "child_process";
                    let specf = dir.join("spec.json");
                    std::fs::write(&specf, serde_json::to_string(sc).unwrap()).expect("scratch write");
                    let child_seed = dec.draw64("child.seed");
                    let mut o = std::process::Command::new(&env.self_exe);
                    o.arg("--child-write-graph").arg(&specf).arg(&path).arg(u64::MAX.to_string()).arg(child_seed.to_string()).stdin(std::process::Stdio::null());
                    let log = crate::cli::arm_sys(&mut o, &dir.join("io"), plan, false);
                    let o = crate::cli::output_locked(&mut o).expect("spawn child");
                    let events = crate::cli::parse_syslog(&log);
                    let _ = std::fs::remove_file(&log);
                    let mut fired = 0;
                    let mut hard = false;
                    for e in &events {
                        ctx.out.ev_str(&e.digest_text());
                        if let Some(name) = e.fault_name() {
                            ctx.out.fault(&name);
                            fired += 1;
                            hard |= e.is_hard_error();
                        }
                    }
                    ctx.out.steps += events.len() as u64;
                    sys_fired = Some((fired, hard));
                    let txt = String::from_utf8_lossy(&o.stdout).to_string();
                    if txt.contains("RESULT ok") {
                        Ok(())
                    } else {
                        Err(txt.trim().to_string())
                    }
                } else if let Fault::OutEfbig(limit) = fault {
                    ctx.out.engine = "child_process";
                    let specf = dir.join("spec.json");
                    std::fs::write(&specf, serde_json::to_string(sc).unwrap()).expect("scratch write");
                    // the child's hash keys are decided here, so that the file bytes replay
                    let child_seed = dec.draw64("child.seed");
                    let mut o = std::process::Command::new(&env.self_exe);
                    let o = o
                        .arg("--child-write-graph")
                        .arg(&specf)
                        .arg(&path)
                        .arg(limit.to_string())
                        .arg(child_seed.to_string())
                        .stdin(std::process::Stdio::null());
                    let o = crate::cli::output_locked(o).expect("spawn child");
                    let txt = String::from_utf8_lossy(&o.stdout).to_string();
                    if txt.contains("RESULT ok") {
                        Ok(())
                    } else {
                        Err(txt.trim().to_string())
                    }
                } else {
                    let core = Core::new(dec, 1);
                    let gg = g.clone();
                    let p2 = path.clone();
                    let (res, core) = with_sim(core, move || quizx::json::write_graph(&gg, &p2));
                    dec = core.dec;
                    match res {
                        Caught::Ok(Ok(())) => Ok(()),
                        Caught::Ok(Err(e)) => Err(format!("Err({e})")),
                        Caught::Panic(m) => Err(format!("panic: {m}")),
                        Caught::Budget => Err("budget".into()),
                    }
                };
                ctx.out.steps += 1;
                ctx.out.fault(fname);
                ctx.out.ev_str(&format!("{:?}", wrote.is_ok()));
                match (&wrote, fault) {
                    (Ok(()), Fault::OutEnospc) if crate::cli::still_link_to_full(&path) => {
                        ctx.out.violations.push(
                            Violation::new(
                                "write_reported_success_but_not_durable",
                                "write_graph(g, <link to /dev/full>) returned Ok(()) although every write(2) to the target fails with ENOSPC".to_string(),
                            )
                            .with("fault", fname),
                        );
                    }
                    (Ok(()), Fault::OutNoDir) | (Ok(()), Fault::OutIsDir) => {
                        ctx.out.violations.push(
                            Violation::new("write_reported_success_but_not_durable", format!("write_graph reported success under fault {fname}")).with("fault", fname),
                        );
                    }
                    (Ok(()), Fault::SysRead(plan)) => {
                        // the file was written undisturbed; read it back in a child under the seam
                        ctx.out.engine = "child_process";
                        let dump = dir.join("decoded.json");
                        let child_seed = dec.draw64("child.seed");
                        let mut o = std::process::Command::new(&env.self_exe);
                        o.arg("--child-read-graph").arg(&path).arg(if sc.decode_hash_backend { "1" } else { "0" }).arg(child_seed.to_string()).arg(&dump).stdin(std::process::Stdio::null());
                        let log = crate::cli::arm_sys(&mut o, &dir.join("io"), plan, false);
                        let o = crate::cli::output_locked(&mut o).expect("spawn child");
                        let events = crate::cli::parse_syslog(&log);
                        let _ = std::fs::remove_file(&log);
                        let mut fired = 0;
                        let mut hard = false;
                        for e in &events {
                            ctx.out.ev_str(&e.digest_text());
                            if let Some(name) = e.fault_name() {
                                ctx.out.fault(&name);
                                fired += 1;
                                hard |= e.is_hard_error();
                            }
                        }
                        if fired == 0 {
                            ctx.out.fault("sys_none_fired");
                        }
                        ctx.out.steps += 1 + events.len() as u64;
                        let txt = String::from_utf8_lossy(&o.stdout).to_string();
                        if txt.contains("RESULT ok") {
                            // the file on disk is complete: a reported success must be the whole diagram
                            match std::fs::read_to_string(&dump).ok().and_then(|t| Dg::from_wire(&t)) {
                                Some(d2) => {
                                    ctx.out.probe(if hard { "sys_success_after_errno_judged" } else if fired > 0 { "sys_success_under_transparent_faults_judged" } else { "sys_success_no_fault_fired" });
                                    ctx.judge_dg(d2, "file.sys_read");
                                }
                                None => panic!("harness: child reported ok but left no readable dump"),
                            }
                        } else if fired == 0 {
                            ctx.out.violations.push(Violation::new("read_failed_without_fault", format!("read_graph of a file written by write_graph failed with no fault injected: {}", txt.trim())));
                        } else if hard {
                            ctx.out.probe("fault_led_to_reported_failure");
                        } else {
                            ctx.out.probe("sys_transparent_fault_led_to_failure");
                        }
                    }
                    (Ok(()), _) => {
                        if let Some((fired, hard)) = sys_fired {
                            if fired == 0 {
                                ctx.out.fault("sys_none_fired");
                            }
                            ctx.out.probe(if hard { "sys_success_after_errno_judged" } else if fired > 0 { "sys_success_under_transparent_faults_judged" } else { "sys_success_no_fault_fired" });
                        }
                        // success: the file must be complete, decodable and isomorphic
                        let bytes = std::fs::metadata(&path).map(|m| m.len()).unwrap_or(0);
                        let core = Core::new(dec, 1);
                        let p2 = path.clone();
                        let hb = sc.decode_hash_backend;
                        let (res, core) = with_sim(core, move || {
                            if hb {
                                quizx::json::read_graph::<quizx::hash_graph::Graph>(&p2).map(|g| Dg::of(&g))
                            } else {
                                quizx::json::read_graph::<quizx::vec_graph::Graph>(&p2).map(|g| Dg::of(&g))
                            }
                        });
                        dec = core.dec;
                        ctx.out.steps += 1;
                        match res {
                            Caught::Ok(Ok(d2)) => {
                                ctx.judge_dg(d2, &format!("file.{fname}"));
                            }
                            Caught::Ok(Err(e)) => ctx.out.violations.push(
                                Violation::new(
                                    "write_reported_success_but_not_durable",
                                    format!("write_graph returned Ok under {fault:?} but the {bytes}-byte file does not decode: {e}"),
                                )
                                .with("fault", fname),
                            ),
                            Caught::Panic(m) => ctx.out.violations.push(
                                Violation::new(
                                    "write_reported_success_but_not_durable",
                                    format!("write_graph returned Ok under {fault:?} but read_graph panics: {m}"),
                                )
                                .with("fault", fname),
                            ),
                            Caught::Budget => {}
                        }
                    }
                    (Err(why), Fault::None) | (Err(why), Fault::SysRead(_)) => {
                        ctx.out.violations.push(Violation::new("write_failed_without_fault", format!("write_graph failed with no fault injected: {why}")));
                    }
                    (Err(why), Fault::SysWrite(_)) if sys_fired.map(|f| f.0 == 0).unwrap_or(false) => {
                        ctx.out.violations.push(Violation::new("write_failed_without_fault", format!("write_graph failed in a child with no fault fired: {why}")));
                    }
                    (Err(_), Fault::SysWrite(_)) if sys_fired.map(|f| !f.1).unwrap_or(false) => {
                        // short writes and EINTR are legal behaviour of write(2) that callers are expected to
                        // absorb; the property does not say so, hence a probe, not a verdict
                        ctx.out.probe("sys_transparent_fault_led_to_failure");
                    }
                    (Err(_), _) => {
                        ctx.out.probe("fault_led_to_reported_failure");
                        // a torn file may be left behind; it must not decode to a DIFFERENT diagram silently
                        // (no claim: there are no checksums), so nothing more is asserted
                    }
                }
                drop(scratch);
            }
        }
        dec
    }
}

impl Ctx<'_> {
    fn judge_dg(&mut self, dec: Dg, what: &str) -> Option<Dg> {
        match iso::anchored_iso(&self.orig, &dec, &compat) {
            Ok(map) => {
                if map.iter().any(|(a, b)| a != b) {
                    self.out.probe("decoded_numbering_differs");
                }
                self.out.distinct.insert(format!("numbering.{what}"), numbering_digest(&map));
                self.out.ev(numbering_digest(&map));
            }
            Err(why) => {
                self.out.violations.push(
                    Violation::new("not_isomorphic", format!("{what}: decoded diagram is not isomorphic to the original: {why}"))
                        .with("form", what.split(['#', '.']).next().unwrap_or(what)),
                );
                return None;
            }
        }
        if let Err(why) = scalar_check(&self.sc.g, &dec.scalar, dec.scalar_dyadic.as_ref()) {
            let exact = self.sc.g.one_plus.is_empty() && self.sc.g.int_factor == [1, 0, 0, 0];
            self.out.violations.push(
                Violation::new("scalar_not_preserved", format!("{what}: {why}"))
                    .with("scalar_class", if exact { "sqrt2_pow_times_omega_pow" } else { "general" }),
            );
        }
        if let Some(t) = &self.tensor {
            let mut d2 = dec.clone();
            d2.scalar = self.orig.scalar.clone();
            if let Ok(t2) = d2.tensor(16) {
                self.out.probe("tensor_compared");
                // float entries are compared relative to the largest entry of the two tensors (an
                // entry that cancels to nearly nothing carries the rounding noise of the whole
                // sum, and the scalar may be as far out as 2^±300)
                let mag = |v: &Val| {
                    let (a, b) = v.to_c64();
                    (a * a + b * b).sqrt()
                };
                let smag = match &self.orig.scalar {
                    DSc::Exact(z) => {
                        let (a, b) = z.to_c64();
                        (a * a + b * b).sqrt()
                    }
                    DSc::Float(a, b) => (a * a + b * b).sqrt(),
                };
                let scale = t.iter().chain(t2.iter()).map(mag).fold(smag, f64::max);
                let differs = |x: &Val, y: &Val| match (x, y) {
                    (Val::Exact(a), Val::Exact(b)) => a != b,
                    _ => {
                        let (a, b) = x.to_c64();
                        let (c, d) = y.to_c64();
                        ((a - c).powi(2) + (b - d).powi(2)).sqrt() > 1e-9 * scale
                    }
                };
                if t.len() != t2.len() || t.iter().zip(t2.iter()).any(|(x, y)| differs(x, y)) {
                    self.out.violations.push(Violation::new(
                        "tensor_differs",
                        format!("{what}: decoded diagram denotes a different linear map"),
                    ));
                }
            }
        }
        Some(dec)
    }
}

/// Child-process entry: write a graph under RLIMIT_FSIZE (torn write at a chosen offset).
pub fn child_write_graph(spec: &str, out: &str, limit: u64, seed: u64) -> i32 {
    crate::simcore::install_panic_hook();
    let txt = std::fs::read_to_string(spec).expect("spec");
    let sc: Sc = serde_json::from_str(&txt).expect("spec json");
    if limit != u64::MAX {
        unsafe {
            libc::signal(libc::SIGXFSZ, libc::SIG_IGN);
            let rl = libc::rlimit { rlim_cur: limit, rlim_max: limit };
            libc::setrlimit(libc::RLIMIT_FSIZE, &rl);
        }
    }
    let path = std::path::PathBuf::from(out);
    let core = Core::new(Decider::seeded(seed), 1);
    let (r, _core) = with_sim(core, move || {
        if sc.hash_backend {
            let g: quizx::hash_graph::Graph = sc.g.build();
            quizx::json::write_graph(&g, &path)
        } else {
            let g: quizx::vec_graph::Graph = sc.g.build();
            quizx::json::write_graph(&g, &path)
        }
    });
    match r {
        Caught::Ok(Ok(())) => println!("RESULT ok"),
        Caught::Ok(Err(e)) => println!("RESULT err {e}"),
        Caught::Panic(m) => println!("RESULT panic {m}"),
        Caught::Budget => println!("RESULT budget"),
    }
    0
}

/// Child-process entry: read a graph (under whatever the system-call seam injects) and hand the
/// decoded diagram to the harness through an untracked file.
pub fn child_read_graph(file: &str, hash_backend: bool, seed: u64, dump: &str) -> i32 {
    crate::simcore::install_panic_hook();
    let path = std::path::PathBuf::from(file);
    let core = Core::new(Decider::seeded(seed), 1);
    let (r, _core) = with_sim(core, move || {
        if hash_backend {
            quizx::json::read_graph::<quizx::hash_graph::Graph>(&path).map(|g| Dg::of(&g))
        } else {
            quizx::json::read_graph::<quizx::vec_graph::Graph>(&path).map(|g| Dg::of(&g))
        }
    });
    match r {
        Caught::Ok(Ok(d)) => {
            std::fs::write(dump, d.to_wire()).expect("dump");
            println!("RESULT ok");
        }
        Caught::Ok(Err(e)) => println!("RESULT err {e}"),
        Caught::Panic(m) => println!("RESULT panic {m}"),
        Caught::Budget => println!("RESULT budget"),
    }
    0
}

/// Child-process entry: several threads write their diagrams to their paths concurrently, under
/// the system-call seam's thread scheduler (one thread runs at a time, switches at file operations).
pub fn child_write_concurrent(spec: &str, seed: u64) -> i32 {
    crate::simcore::install_panic_hook();
    let txt = std::fs::read_to_string(spec).expect("spec");
    let jobs: Vec<(GSpec, String, bool, bool)> = serde_json::from_str(&txt).expect("spec json");
    let dump_dir = std::path::Path::new(spec).parent().map(|p| p.to_path_buf()).unwrap_or_default();
    type Hook = unsafe extern "C" fn(i32);
    let look = |name: &str| -> Option<Hook> {
        let c = std::ffi::CString::new(name).unwrap();
        let p = unsafe { libc::dlsym(libc::RTLD_DEFAULT, c.as_ptr()) };
        if p.is_null() {
            None
        } else {
            Some(unsafe { std::mem::transmute::<*mut libc::c_void, Hook>(p) })
        }
    };
    let (begin, end) = match (look("qfault_thread_begin"), look("qfault_thread_end")) {
        (Some(b), Some(e)) => (b, e),
        _ => {
            println!("NOSHIM");
            return 3;
        }
    };
    let mut handles = vec![];
    for (i, (g, path, hb, is_reader)) in jobs.into_iter().enumerate() {
        let dump = dump_dir.join(format!("read-{i}.json"));
        handles.push(std::thread::spawn(move || {
            unsafe { begin(i as i32) };
            let core = Core::new(Decider::seeded(mix(seed, i as u64)), 1);
            let p = std::path::PathBuf::from(path);
            if is_reader {
                let (r, _core) = with_sim(core, move || {
                    if !p.exists() {
                        return Err("the file is gone".to_string());
                    }
                    if hb {
                        quizx::json::read_graph::<quizx::hash_graph::Graph>(&p).map(|g| Dg::of(&g)).map_err(|e| e.to_string())
                    } else {
                        quizx::json::read_graph::<quizx::vec_graph::Graph>(&p).map(|g| Dg::of(&g)).map_err(|e| e.to_string())
                    }
                });
                unsafe { end(i as i32) };
                return match r {
                    Caught::Ok(Ok(d)) => {
                        std::fs::write(&dump, d.to_wire()).expect("dump");
                        format!("RESULT {i} ok")
                    }
                    Caught::Ok(Err(e)) => format!("RESULT {i} err {e}"),
                    Caught::Panic(m) => format!("RESULT {i} panic {m}"),
                    Caught::Budget => format!("RESULT {i} budget"),
                };
            }
            let (r, _core) = with_sim(core, move || {
                if hb {
                    let gg: quizx::hash_graph::Graph = g.build();
                    quizx::json::write_graph(&gg, &p)
                } else {
                    let gg: quizx::vec_graph::Graph = g.build();
                    quizx::json::write_graph(&gg, &p)
                }
            });
            unsafe { end(i as i32) };
            match r {
                Caught::Ok(Ok(())) => format!("RESULT {i} ok"),
                Caught::Ok(Err(e)) => format!("RESULT {i} err {e}"),
                Caught::Panic(m) => format!("RESULT {i} panic {m}"),
                Caught::Budget => format!("RESULT {i} budget"),
            }
        }));
    }
    for h in handles {
        match h.join() {
            Ok(l) => println!("{l}"),
            Err(_) => println!("RESULT ? thread-panicked"),
        }
    }
    println!("DONE");
    0
}

impl Property for C13 {
    type Sc = Sc;
    fn id(&self) -> &'static str {
        "C13"
    }
    fn level(&self) -> &'static str {
        "exploration"
    }
    fn rule(&self) -> String {
        "decider builds a diagram (<=10 spiders Z/X and structurally H-boxes, <=3 inputs and <=3 outputs, bare and Hadamard wires between boundaries, both edge types, phases with denominators up to 256 and a few beyond, unique / colliding / negative / fractional coordinates, scalar sqrt2^p w^k times (1+e^{ia}) factors) in the vector or hash backend, and then every RandomState key of every map created in encode_graph and in each of several independent decode_graph calls (so JSON member order, decoded vertex numbering and edge insertion order are recorded decisions); the file form writes through write_graph/read_graph under no fault, ENOSPC (/dev/full), a torn write at a decider-chosen byte offset (RLIMIT_FSIZE in a child process), missing directory, target is a directory, and (sub-batch file_sys) write_graph resp. read_graph in a child process under the system-call seam (LD_PRELOAD shim: short writes / short reads, EINTR and errno failures EIO/ENOSPC/EDQUOT/EMFILE/... at decider-chosen calls; diagrams above the 8 KiB buffer size in a sixth of the runs). Oracle: anchored isomorphism (inputs/outputs in order, types, phases, edge types, coordinates), exact scalar for sqrt2^p w^k and 1e-9 relative otherwise, tensor equality where evaluable, and decodes under different hash orders isomorphic to each other. Sub-batch file_multi: a history of 2..5 write_graph calls into one directory under names that share stems and extensions (g.qgraph, g.tmp, g, g.0, g.1, g.qgraph.tmp, ...; a name may repeat), after which every file must hold the diagram written to it last. Sub-batch file_concurrent: 2..3 threads of one child process write different diagrams to different names in one directory; the system-call seam's thread scheduler lets exactly one of them run at a time and switches at every file operation (open / write / close / rename / unlink) according to a decider-drawn list, so the interleaving - including what the writers do in memory between two calls - replays; every writer that reports success must find its own diagram in its file; in a third of the runs the last party is a reader whose file was complete before the others started writing to other names, and it must read its own diagram back. ENOSPC targets are symbolic links to /dev/full in the scratch directory (a target the code replaced by a complete file of its own is judged by content). Scalars of the general classes reach 2^+-1000. Under faults only a reported success with a missing/undecodable/different file is a violation. Non-trivial: >=2 boundaries, >=1 Hadamard edge, >=1 non-zero phase, and a decoded numbering that differs from the original. Distinct by (scenario digest, event digest).".into()
    }
    fn assumptions(&self) -> Vec<String> {
        vec![
            "the isomorphism checker (self-tested on permuted copies) and the ZX evaluator are correct".into(),
            "tmpfs scratch under /dev/shm, /dev/full and RLIMIT_FSIZE behave as documented; no checksums are expected of the format, so a corrupted file that still decodes is not judged".into(),
            "floating-point tolerance for non-exact scalars is read as 1e-9 relative".into(),
        ]
    }
    fn real_vs_stub(&self) -> Value {
        json!({"real": ["JsonGraph::from_graph / to_graph", "phase and scalar codecs", "serde_json", "serde impls of hash_graph::Graph", "write_graph / read_graph on a real filesystem (tmpfs, /dev/full, RLIMIT_FSIZE; open/read/write behind the LD_PRELOAD shim in the file_sys runs)", "both graph backends"], "stubbed": ["RandomState keys of the encoder's and decoder's maps: decider draws (real RandomState in the child-process runs)"]})
    }
    fn sub_batches(&self) -> Vec<SubBatch> {
        vec![
            SubBatch { name: "string", quick: 40_000, thorough: 2_000_000 },
            SubBatch { name: "serde", quick: 6_000, thorough: 300_000 },
            SubBatch { name: "file", quick: 3_000, thorough: 60_000 },
            SubBatch { name: "file_torn", quick: 160, thorough: 4_000 },
            SubBatch { name: "file_sys", quick: 1_500, thorough: 30_000 },
            SubBatch { name: "file_multi", quick: 3_000, thorough: 60_000 },
            SubBatch { name: "file_concurrent", quick: 1_200, thorough: 24_000 },
        ]
    }
    fn expected_probes(&self) -> Vec<&'static str> {
        vec![
            "decoded_numbering_differs",
            "tensor_compared",
            "has.hadamard_wire_boundary_boundary",
            "has.hadamard_edge_boundary_spider",
            "has.hbox",
            "has.den_gt_256",
            "has.general_scalar",
            "has.colliding_coords",
            "fault_led_to_reported_failure",
        ]
    }

    fn generate(&self, d: &mut Decider, _tier: Tier, sub: &str) -> Sc {
        let large = (sub == "file" || sub == "file_torn" || sub == "file_sys" || sub == "string") && d.coin("large", 1, if sub == "string" { 40 } else { 6 });
        let g = gen::json_diagram_sized(d, large);
        let form = match sub {
            "string" => Form::Str(2 + d.choose("ndec", 3)),
            "serde" => Form::Serde,
            "file" => Form::File(match d.choose("fault", 6) {
                0 | 1 => Fault::None,
                2 | 3 => Fault::OutEnospc,
                4 => Fault::OutNoDir,
                _ => Fault::OutIsDir,
            }),
            "file_multi" => Form::FileMulti,
            "file_concurrent" => {
                let picks = (0..d.choose("fc.len", 60)).map(|_| d.choose("fc.pick", 4) as u8).collect();
                // short transfers and EINTR only in a third of the runs, nothing else: the subject is the interleaving
                let plan = if d.coin("fc.plan", 1, 3) { crate::cli::gen_sysplan(d, false) } else { Default::default() };
                Form::FileConcurrent { picks, plan }
            }
            "file_sys" => {
                let hard = d.coin("sys.hard", 1, 3);
                let plan = crate::cli::gen_sysplan(d, hard);
                Form::File(if d.coin("sys.read", 1, 2) { Fault::SysRead(plan) } else { Fault::SysWrite(plan) })
            }
            _ => Form::File(Fault::OutEfbig(d.choose("efbig", if large { 30_000 } else { 3000 }) as u64)),
        };
        let (more, first_name) = if sub == "file_concurrent" {
            // 2..3 writers, pairwise different names from a small pool (shared stems)
            let k = 1 + d.choose("fc.k", 2);
            let mut names: Vec<&str> = vec![];
            while names.len() < k + 1 {
                let n = *d.pick("fc.name", NAMES);
                if !names.contains(&n) {
                    names.push(n);
                }
            }
            let first = names[0].to_string();
            let more = (0..k).map(|i| (gen::json_diagram_sized(d, false), names[i + 1].to_string())).collect();
            (more, first)
        } else if sub == "string" && d.coin("str.hist", 1, 3) {
            // the string form after earlier codec calls on other diagrams (see execute)
            let k = 1 + d.choose("str.hk", 2);
            ((0..k).map(|_| (gen::json_diagram_sized(d, false), String::new())).collect(), String::new())
        } else if sub == "file_multi" {
            let k = 1 + d.choose("fm.k", 4);
            // a small pool of names per run, so that stems collide and names repeat
            let pool: Vec<&str> = (0..3 + d.choose("fm.pool", 3)).map(|_| *d.pick("fm.name", NAMES)).collect();
            let first = d.pick("fm.first", &pool).to_string();
            let more = (0..k).map(|_| (gen::json_diagram_sized(d, false), d.pick("fm.n", &pool).to_string())).collect();
            (more, first)
        } else {
            (vec![], String::new())
        };
        Sc { g, hash_backend: d.coin("hb", 1, 2), decode_hash_backend: d.coin("dhb", 1, 2), form, pre: d.choose("pre", 3) as u8, more, first_name }
    }

    fn execute(&self, sc: &Sc, _sub: &str, exec: Decider, env: &Env) -> RunOut {
        let mut out = RunOut { engine: "native", ..Default::default() };
        out.scenario_digest = hash_str(&serde_json::to_string(sc).unwrap());
        let g = &sc.g;
        let is_b = |v: usize| g.verts[v].0 == 0;
        if g.edges.iter().any(|&(a, b, h)| h && is_b(a) && is_b(b)) {
            out.probe("has.hadamard_wire_boundary_boundary");
        }
        if g.edges.iter().any(|&(a, b, h)| h && (is_b(a) ^ is_b(b))) {
            out.probe("has.hadamard_edge_boundary_spider");
        }
        if g.verts.iter().any(|v| v.0 == 3) {
            out.probe("has.hbox");
        }
        if g.verts.len() >= 40 {
            out.probe("has.large_diagram_json_over_8k");
        }
        if g.verts.iter().any(|v| v.2 > 256) {
            out.probe("has.den_gt_256");
        }
        if !g.one_plus.is_empty() || g.int_factor != [1, 0, 0, 0] {
            out.probe("has.general_scalar");
        }
        if g.one_plus.contains(&(1, 1)) {
            out.probe("has.zero_scalar");
        }
        let mut coords: Vec<(u64, u64)> = g.verts.iter().map(|v| (v.3.to_bits(), v.4.to_bits())).collect();
        coords.sort();
        let before = coords.len();
        coords.dedup();
        if coords.len() < before {
            out.probe("has.colliding_coords");
        }
        let dec = if sc.hash_backend {
            self.exec::<quizx::hash_graph::Graph>(sc, exec, &mut out, env)
        } else {
            self.exec::<quizx::vec_graph::Graph>(sc, exec, &mut out, env)
        };
        out.ev(dec.digest);
        out.exec_trace = dec.values();
        let nb = g.inputs.len() + g.outputs.len();
        let has_h = g.edges.iter().any(|e| e.2);
        let has_phase = g.verts.iter().any(|v| (v.0 == 1 || v.0 == 2) && v.1 != 0);
        out.nontrivial = nb >= 2 && has_h && has_phase && out.probes.contains_key("decoded_numbering_differs");
        for v in &out.violations {
            out.event_digest = mix(out.event_digest, hash_str(&v.key()));
        }
        out.sample = Some(json!({"scenario": sc, "decisions": out.exec_trace.len()}));
        let _ = decode_any;
        let _ = Zw::zero;
        out
    }

    fn shrink(&self, sc: &Sc) -> Vec<Sc> {
        let mut c = vec![];
        let g = &sc.g;
        for i in 0..sc.more.len() {
            let mut m = sc.more.clone();
            m.remove(i);
            c.push(Sc { more: m, ..sc.clone() });
        }
        if let Form::FileConcurrent { picks, plan } = &sc.form {
            if !picks.is_empty() {
                c.push(Sc { form: Form::FileConcurrent { picks: vec![], plan: plan.clone() }, ..sc.clone() });
                c.push(Sc { form: Form::FileConcurrent { picks: picks[..picks.len() / 2].to_vec(), plan: plan.clone() }, ..sc.clone() });
            }
            if !plan.is_empty() {
                c.push(Sc { form: Form::FileConcurrent { picks: picks.clone(), plan: Default::default() }, ..sc.clone() });
            }
        }
        match &sc.form {
            Form::File(Fault::SysWrite(p)) => {
                for q in crate::cli::shrink_sysplan(p) {
                    c.push(Sc { form: Form::File(Fault::SysWrite(q)), ..sc.clone() });
                }
            }
            Form::File(Fault::SysRead(p)) => {
                for q in crate::cli::shrink_sysplan(p) {
                    c.push(Sc { form: Form::File(Fault::SysRead(q)), ..sc.clone() });
                }
            }
            _ => {}
        }
        // drop vertices (keep boundaries attached: dropping a spider drops its boundary too if it becomes isolated)
        for v in (0..g.verts.len()).rev() {
            let mut h = g.without_vertex(v);
            // remove boundaries left without an edge
            loop {
                let dangling = (0..h.verts.len()).find(|&b| h.verts[b].0 == 0 && h.degree(b) == 0);
                match dangling {
                    Some(b) => h = h.without_vertex(b),
                    None => break,
                }
            }
            c.push(Sc { g: h, ..sc.clone() });
        }
        for i in 0..g.edges.len() {
            let (a, b, _) = g.edges[i];
            if g.verts[a].0 == 0 || g.verts[b].0 == 0 {
                continue;
            }
            let mut h = g.clone();
            h.edges.remove(i);
            c.push(Sc { g: h, ..sc.clone() });
        }
        for v in 0..g.verts.len() {
            if (g.verts[v].0 == 1 || g.verts[v].0 == 2) && g.verts[v].1 != 0 {
                let mut h = g.clone();
                h.verts[v].1 = 0;
                h.verts[v].2 = 1;
                c.push(Sc { g: h, ..sc.clone() });
            }
            if g.verts[v].3 != 0.0 || g.verts[v].4 != 0.0 {
                let mut h = g.clone();
                h.verts[v].3 = 0.0;
                h.verts[v].4 = 0.0;
                c.push(Sc { g: h, ..sc.clone() });
            }
        }
        if !g.one_plus.is_empty() {
            for i in 0..g.one_plus.len() {
                let mut h = g.clone();
                h.one_plus.remove(i);
                c.push(Sc { g: h, ..sc.clone() });
            }
        }
        if g.int_factor != [1, 0, 0, 0] {
            let mut h = g.clone();
            h.int_factor = [1, 0, 0, 0];
            c.push(Sc { g: h, ..sc.clone() });
        }
        if g.sqrt2_pow != 0 {
            let mut h = g.clone();
            h.sqrt2_pow = 0;
            c.push(Sc { g: h, ..sc.clone() });
        }
        if g.omega_pow != 0 {
            let mut h = g.clone();
            h.omega_pow = 0;
            c.push(Sc { g: h, ..sc.clone() });
        }
        if let Form::Str(k) = sc.form {
            if k > 1 {
                c.push(Sc { form: Form::Str(1), ..sc.clone() });
            }
        }
        if sc.hash_backend {
            c.push(Sc { hash_backend: false, ..sc.clone() });
        }
        if sc.decode_hash_backend {
            c.push(Sc { decode_hash_backend: false, ..sc.clone() });
        }
        c
    }

    fn self_test(&self) -> Result<(), String> {
        iso::self_test()
    }
}
