//! C18 — rank-decomposition trees stay valid with correct cached widths under
//! all move histories; the annealer returns a valid tree no wider than its start.

use crate::decider::{mix, Decider, DeciderRng};
use crate::f2;
use crate::framework::*;
use crate::simcore::{catch, with_sim, Caught, Core};
use quizx::graph::{GraphLike, VType};
use quizx::rankwidth::annealer::RankwidthAnnealer;
use quizx::rankwidth::decomp_tree::{DecompNode, DecompTree};
use serde::{Deserialize, Serialize};
use serde_json::{json, Value};
use std::collections::{BTreeMap, BTreeSet};

#[derive(Clone, Copy, Debug, Serialize, Deserialize, PartialEq, Eq)]
pub enum Op {
    SwapLeaves,
    LocalSwap,
    MoveSubtree,
    Rankwidth,
    Score,
    CloneContinue,
    /// clone the tree, put one of the two copies on a shelf and continue on the other
    Fork,
    /// query (width, score) of a shelved copy on the copy itself: nothing done to the other copy
    /// since the fork may have reached it
    QueryShelved,
}

#[derive(Clone, Debug, Serialize, Deserialize, PartialEq)]
pub enum Mode {
    History { ops: Vec<Op> },
    Annealer {
        iterations: usize,
        init_temp: f64,
        min_temp: f64,
        cooling: f64,
        adaptive: bool,
        given_init: bool,
        /// the given initial tree is itself the result of a first annealing run (a good start:
        /// small width, so that "no wider than the start" is a sharp condition)
        #[serde(default)]
        warm: bool,
    },
    RankDecomp,
}

#[derive(Clone, Debug, Serialize, Deserialize, PartialEq)]
pub struct Sc {
    /// vertex ids (strictly increasing; holes allowed)
    pub ids: Vec<usize>,
    /// edges as pairs of positions in `ids`
    pub edges: Vec<(usize, usize)>,
    pub hash_backend: bool,
    pub mode: Mode,
    /// history runs: the checker is passive (see `Checker::passive`)
    #[serde(default)]
    pub passive: bool,
    /// annealer runs: the same annealer object is run a second time - 1 after
    /// set_init_decomp(result of the first run), 2 after set_init_decomp(a fresh random tree),
    /// 3 after other parameters only; each run is judged against its own start
    #[serde(default)]
    pub rerun: u8,
}

#[derive(Clone, Copy)]
pub struct C18;

fn build<G: GraphLike>(sc: &Sc) -> G {
    let mut g = G::new();
    let top = sc.ids.last().map(|x| x + 1).unwrap_or(0);
    let mut made = vec![];
    for _ in 0..top {
        made.push(g.add_vertex(VType::Z));
    }
    let keep: BTreeSet<usize> = sc.ids.iter().copied().collect();
    for &v in &made {
        if !keep.contains(&v) {
            g.remove_vertex(v);
        }
    }
    for &(a, b) in &sc.edges {
        g.add_edge(sc.ids[a], sc.ids[b]);
    }
    g
}

/// Harness-side structural check of a decomposition tree. Returns the tree
/// edges on success.
fn structural(tree: &DecompTree, ids: &[usize]) -> Result<Vec<(usize, usize)>, String> {
    let n = ids.len();
    let nn = tree.nodes.len();
    if n < 2 {
        return Err("graph too small".into());
    }
    if nn != 2 * n - 2 {
        return Err(format!("{} nodes for {} vertices (want {})", nn, n, 2 * n - 2));
    }
    let mut leaves_seen = vec![];
    let mut interior_seen = vec![];
    let mut labels = vec![];
    for (i, node) in tree.nodes.iter().enumerate() {
        match node {
            DecompNode::Leaf([p], v) => {
                if *p >= nn || *p == i {
                    return Err(format!("leaf {i} has bad parent {p}"));
                }
                leaves_seen.push(i);
                labels.push(*v);
            }
            DecompNode::Interior(nb) => {
                for &x in nb {
                    if x >= nn || x == i {
                        return Err(format!("interior {i} has bad neighbour {x}"));
                    }
                }
                if nb[0] == nb[1] || nb[0] == nb[2] || nb[1] == nb[2] {
                    return Err(format!("interior {i} has repeated neighbours {:?}", nb));
                }
                interior_seen.push(i);
            }
        }
    }
    // symmetric adjacency
    for (i, node) in tree.nodes.iter().enumerate() {
        for &j in node.nhd() {
            if !tree.nodes[j].nhd().contains(&i) {
                return Err(format!("edge {i}->{j} not symmetric"));
            }
        }
    }
    // connected
    let mut seen = vec![false; nn];
    let mut stack = vec![0usize];
    seen[0] = true;
    let mut cnt = 1;
    while let Some(x) = stack.pop() {
        for &y in tree.nodes[x].nhd() {
            if !seen[y] {
                seen[y] = true;
                cnt += 1;
                stack.push(y);
            }
        }
    }
    if cnt != nn {
        return Err(format!("tree not connected ({cnt} of {nn} reachable)"));
    }
    let deg: usize = tree.nodes.iter().map(|x| x.nhd().len()).sum();
    if deg != 2 * (nn - 1) {
        return Err(format!("{} half-edges for {} nodes", deg, nn));
    }
    // index lists
    let mut l = tree.leaves.clone();
    l.sort();
    if l != leaves_seen {
        return Err(format!("`leaves` list {:?} != leaf nodes {:?}", tree.leaves, leaves_seen));
    }
    let mut it = tree.interior.clone();
    it.sort();
    if it != interior_seen {
        return Err(format!(
            "`interior` list {:?} != interior nodes {:?}",
            tree.interior, interior_seen
        ));
    }
    labels.sort();
    if labels != ids {
        return Err(format!("leaf labels {:?} != vertex set {:?}", labels, ids));
    }
    let mut edges = vec![];
    for (i, node) in tree.nodes.iter().enumerate() {
        for &j in node.nhd() {
            if i < j {
                edges.push((i, j));
            }
        }
    }
    Ok(edges)
}

/// Brute-force (width, score) from the scenario's own adjacency.
fn brute(tree: &DecompTree, sc: &Sc, edges: &[(usize, usize)]) -> (usize, usize) {
    let n = sc.ids.len();
    if n > 128 {
        return brute_wide(tree, sc, edges);
    }
    let pos: BTreeMap<usize, usize> = sc.ids.iter().enumerate().map(|(i, &v)| (v, i)).collect();
    let mut adj = vec![0u128; n];
    for &(a, b) in &sc.edges {
        adj[a] |= 1u128 << b;
        adj[b] |= 1u128 << a;
    }
    let (mut width, mut score) = (0, 0);
    for &(i, j) in edges {
        // leaves on i's side when edge (i,j) is removed
        let mut side = vec![false; tree.nodes.len()];
        let mut stack = vec![i];
        side[i] = true;
        while let Some(x) = stack.pop() {
            for &y in tree.nodes[x].nhd() {
                if !(x == i && y == j) && !side[y] {
                    side[y] = true;
                    stack.push(y);
                }
            }
        }
        let mut mask: u128 = 0;
        for (k, node) in tree.nodes.iter().enumerate() {
            if let DecompNode::Leaf(_, v) = node {
                if side[k] {
                    mask |= 1u128 << pos[v];
                }
            }
        }
        let rows: Vec<u128> = (0..n)
            .filter(|&a| mask >> a & 1 == 1)
            .map(|a| adj[a] & !mask)
            .collect();
        let r = f2::rank(rows);
        width = width.max(r);
        score += r * r;
    }
    (width, score)
}

/// The same for graphs of more than 128 vertices (rows as word vectors).
fn brute_wide(tree: &DecompTree, sc: &Sc, edges: &[(usize, usize)]) -> (usize, usize) {
    let n = sc.ids.len();
    let words = n.div_ceil(64);
    let pos: BTreeMap<usize, usize> = sc.ids.iter().enumerate().map(|(i, &v)| (v, i)).collect();
    let mut adj = vec![vec![0u64; words]; n];
    for &(a, b) in &sc.edges {
        adj[a][b / 64] |= 1u64 << (b % 64);
        adj[b][a / 64] |= 1u64 << (a % 64);
    }
    let (mut width, mut score) = (0, 0);
    for &(i, j) in edges {
        let mut side = vec![false; tree.nodes.len()];
        let mut stack = vec![i];
        side[i] = true;
        while let Some(x) = stack.pop() {
            for &y in tree.nodes[x].nhd() {
                if !(x == i && y == j) && !side[y] {
                    side[y] = true;
                    stack.push(y);
                }
            }
        }
        let mut mask = vec![0u64; words];
        let mut inside = vec![false; n];
        for (k, node) in tree.nodes.iter().enumerate() {
            if let DecompNode::Leaf(_, v) = node {
                if side[k] {
                    let p = pos[v];
                    mask[p / 64] |= 1u64 << (p % 64);
                    inside[p] = true;
                }
            }
        }
        // the smaller side gives the rows (the rank of a matrix is that of its transpose)
        let cnt = inside.iter().filter(|x| **x).count();
        let rows_inside = cnt * 2 <= n;
        let rows: Vec<Vec<u64>> = (0..n)
            .filter(|&a| inside[a] == rows_inside)
            .map(|a| adj[a].iter().zip(mask.iter()).map(|(x, m)| if rows_inside { x & !m } else { x & m }).collect())
            .collect();
        let r = f2::rank_wide(rows, n);
        width = width.max(r);
        score += r * r;
    }
    (width, score)
}

fn tree_digest(tree: &DecompTree) -> u64 {
    let mut h = 0x7u64;
    for node in &tree.nodes {
        match node {
            DecompNode::Leaf([p], v) => {
                h = mix(h, (*p as u64) << 20 | *v as u64);
            }
            DecompNode::Interior(nb) => {
                let mut s = *nb;
                s.sort();
                h = mix(h, (s[0] as u64) << 40 | (s[1] as u64) << 20 | s[2] as u64 | 1 << 63);
            }
        }
    }
    h
}

struct Checker<'a> {
    sc: &'a Sc,
    out: &'a mut RunOut,
    /// the harness keeps its hands off the tree: between the scenario's own queries only the
    /// structure is inspected (no clone, no rank computation by quizx on the harness's behalf), and a
    /// query is judged against the brute-force value alone. Clones made by the checker would
    /// otherwise fill or copy caches at every step and mask defects that need an *uncomputed* cache.
    passive: bool,
}

impl Checker<'_> {
    /// full check of a tree: structure, is_valid_for_graph, cached vs scratch vs brute force.
    /// `live` says whether the width query goes to the tree itself (mutating its cache).
    fn check<G: GraphLike>(&mut self, tree: &mut DecompTree, g: &G, stage: &str, query_live: bool) {
        let edges = match structural(tree, &self.sc.ids) {
            Ok(e) => e,
            Err(why) => {
                self.out.violations.push(
                    Violation::new("tree_malformed", format!("after {stage}: {why}"))
                        .with("stage", stage_kind(stage)),
                );
                return;
            }
        };
        match catch(|| tree.is_valid_for_graph(g)) {
            Caught::Ok(true) => {}
            Caught::Ok(false) => {
                self.out.violations.push(
                    Violation::new(
                        "is_valid_disagrees",
                        format!("after {stage}: is_valid_for_graph=false on a structurally valid tree"),
                    )
                    .with("stage", stage_kind(stage)),
                );
            }
            Caught::Panic(m) => {
                self.out.violations.push(
                    Violation::new("panic", format!("is_valid_for_graph after {stage}: {m}"))
                        .with("where", "is_valid_for_graph")
                        .with("msg", norm_msg(&m)),
                );
                return;
            }
            Caught::Budget => {}
        }
        let (bw, bs) = brute(tree, self.sc, &edges);
        if self.passive {
            if !query_live {
                return;
            }
            match catch(|| (tree.rankwidth(g), tree.rankwidth_score(g))) {
                Caught::Ok(c) => {
                    self.out.ev(mix(c.0 as u64, c.1 as u64));
                    if c != (bw, bs) {
                        self.out.violations.push(
                            Violation::new("width_wrong", format!("after {stage}: (width,score)={:?} but brute-force cut ranks give {:?}", c, (bw, bs)))
                                .with("stage", stage_kind(stage)),
                        );
                    }
                }
                Caught::Panic(m) => self.out.violations.push(
                    Violation::new("panic", format!("rankwidth query after {stage}: {m}")).with("where", "rankwidth").with("msg", norm_msg(&m)),
                ),
                Caught::Budget => {}
            }
            return;
        }
        // cached answer (either live or on a clone that inherits the cache)
        let cached = if query_live {
            catch(|| (tree.rankwidth(g), tree.rankwidth_score(g)))
        } else {
            let mut probe = tree.clone();
            catch(move || (probe.rankwidth(g), probe.rankwidth_score(g)))
        };
        let mut scratch_tree = tree.clone();
        scratch_tree.clear_ranks();
        let scratch = catch(move || (scratch_tree.rankwidth(g), scratch_tree.rankwidth_score(g)));
        match (cached, scratch) {
            (Caught::Ok(c), Caught::Ok(s)) => {
                self.out.ev(mix(c.0 as u64, c.1 as u64));
                if c != s {
                    self.out.violations.push(
                        Violation::new(
                            "stale_cache",
                            format!(
                                "after {stage}: cached (width,score)={:?} but recomputed from scratch {:?} (brute force {:?})",
                                c, s, (bw, bs)
                            ),
                        )
                        .with("stage", stage_kind(stage)),
                    );
                } else if s != (bw, bs) {
                    self.out.violations.push(
                        Violation::new(
                            "width_wrong",
                            format!(
                                "after {stage}: (width,score)={:?} but brute-force cut ranks give {:?}",
                                s, (bw, bs)
                            ),
                        )
                        .with("stage", stage_kind(stage)),
                    );
                }
            }
            (Caught::Panic(m), _) | (_, Caught::Panic(m)) => {
                self.out.violations.push(
                    Violation::new("panic", format!("rankwidth query after {stage}: {m}"))
                        .with("where", "rankwidth")
                        .with("msg", norm_msg(&m)),
                );
            }
            _ => {}
        }
    }
}

fn stage_kind(stage: &str) -> String {
    stage.split('#').next().unwrap_or(stage).to_string()
}

/// Normalise a panic message into a stable signature (digits removed).
pub fn norm_msg(m: &str) -> String {
    let head = m.split(" @ ").next().unwrap_or(m);
    let loc = m.split(" @ ").nth(1).unwrap_or("");
    let file = loc.split(':').next().unwrap_or("");
    let mut s: String = head
        .chars()
        .map(|c| if c.is_ascii_digit() { '#' } else { c })
        .collect();
    while s.contains("##") {
        s = s.replace("##", "#");
    }
    let s: String = s.chars().take(80).collect();
    format!("{s} @ {file}")
}

impl C18 {
    fn exec_generic<G: GraphLike>(&self, sc: &Sc, mut exec: Decider, out: &mut RunOut) -> Vec<u64> {
        // sticky randomness in one run of twelve (see Decider::sticky): retry loops and
        // "pick two different ..." code meet streaks of equal draws
        if sc.ids.len() <= 100 && exec.coin("rng.mode", 1, 12) {
            exec.sticky = 1 + exec.choose("rng.mem", 3) as u8;
            out.probe("sticky_randomness");
        }
        let g: G = build(sc);
        let n = sc.ids.len();
        match &sc.mode {
            Mode::History { ops } => {
                let mut tree = {
                    let mut rng = DeciderRng { d: &mut exec, site: "c18.init", draws: 0, limit: 100_000 };
                    match catch(|| DecompTree::random_decomp(&g, &mut rng)) {
                        Caught::Ok(t) => t,
                        Caught::Panic(m) => {
                            out.violations.push(
                                Violation::new("panic", format!("random_decomp: {m}"))
                                    .with("where", "random_decomp")
                                    .with("msg", norm_msg(&m)),
                            );
                            return exec.values();
                        }
                        Caught::Budget => {
                            out.inconclusive = true;
                            return exec.values();
                        }
                    }
                };
                out.steps += 1;
                let mut ck = Checker { sc, out, passive: sc.passive };
                if sc.passive {
                    ck.out.probe("passive_checker");
                }
                ck.check(&mut tree, &g, "random_decomp", false);
                if !ck.out.violations.is_empty() {
                    return exec.values();
                }
                let mut kinds = BTreeSet::new();
                let mut structural_moves = 0;
                let mut query_between = false;
                let mut last_was_query_after_move = false;
                // copies set aside by Fork, each with the digest of its structure at that moment
                let mut shelf: Vec<(DecompTree, u64)> = vec![];
                for (k, op) in ops.iter().enumerate() {
                    let stage = format!("{:?}#{}", op, k);
                    let before = tree_digest(&tree);
                    let r = {
                        let mut rng = DeciderRng { d: &mut exec, site: "c18.move", draws: 0, limit: 10_000 };
                        let t = &mut tree;
                        match op {
                            Op::SwapLeaves => catch(|| t.swap_random_leaves(&mut rng)),
                            Op::LocalSwap => catch(|| t.random_local_swap(&mut rng)),
                            Op::MoveSubtree => catch(|| t.move_random_subtree(&mut rng)),
                            Op::Rankwidth => catch(|| {
                                t.rankwidth(&g);
                            }),
                            Op::Score => catch(|| {
                                t.rankwidth_score(&g);
                            }),
                            Op::CloneContinue => catch(|| {
                                let c = t.clone();
                                *t = c;
                            }),
                            Op::Fork => {
                                let keep_original = k % 2 == 0;
                                let sh = &mut shelf;
                                catch(move || {
                                    let c = t.clone();
                                    // even steps shelve the original and go on with the clone, odd steps the reverse
                                    let shelved = if keep_original { std::mem::replace(t, c) } else { c };
                                    let dg = tree_digest(&shelved);
                                    if sh.len() >= 3 {
                                        sh.remove(0);
                                    }
                                    sh.push((shelved, dg));
                                })
                            }
                            Op::QueryShelved => Caught::Ok(()),
                        }
                    };
                    ck.out.steps += 1;
                    match r {
                        Caught::Ok(()) => {}
                        Caught::Panic(m) => {
                            ck.out.violations.push(
                                Violation::new("panic", format!("{stage} on a {n}-vertex graph: {m}"))
                                    .with("where", format!("{:?}", op))
                                    .with("msg", norm_msg(&m))
                                    .with("two_vertex", (n == 2).to_string()),
                            );
                            return exec.values();
                        }
                        Caught::Budget => {
                            ck.out.inconclusive = true;
                            return exec.values();
                        }
                    }
                    let after = tree_digest(&tree);
                    ck.out.ev(after);
                    match op {
                        Op::SwapLeaves | Op::LocalSwap | Op::MoveSubtree => {
                            structural_moves += 1;
                            kinds.insert(*op as u8);
                            if last_was_query_after_move {
                                query_between = true;
                            }
                            last_was_query_after_move = false;
                            if before != after {
                                ck.out.probe(match op {
                                    Op::SwapLeaves => "leaf_swap_changed_tree",
                                    Op::LocalSwap => "local_swap_changed_tree",
                                    _ => "subtree_move_changed_tree",
                                });
                            } else if *op == Op::SwapLeaves && n >= 3 {
                                ck.out.probe("leaf_swap_of_siblings_or_noop");
                            }
                        }
                        Op::Rankwidth | Op::Score => {
                            if structural_moves > 0 {
                                last_was_query_after_move = true;
                            }
                            ck.out.probe("cached_query");
                        }
                        Op::CloneContinue => {
                            ck.out.probe("clone_continue");
                        }
                        Op::Fork => {
                            ck.out.probe("fork");
                        }
                        Op::QueryShelved => {
                            if !shelf.is_empty() {
                                let i = k % shelf.len();
                                let (st, dg) = &mut shelf[i];
                                ck.out.probe("shelved_copy_queried");
                                if tree_digest(st) != *dg {
                                    ck.out.violations.push(
                                        Violation::new("shelved_copy_changed", format!("{stage}: the structure of a copy set aside by Fork changed although only the other copy was operated on"))
                                            .with("stage", stage_kind(&stage)),
                                    );
                                    return exec.values();
                                }
                                ck.check(st, &g, &format!("{stage}.shelved"), true);
                                if !ck.out.violations.is_empty() {
                                    return exec.values();
                                }
                            }
                        }
                    }
                    let live = matches!(op, Op::Rankwidth | Op::Score);
                    ck.check(&mut tree, &g, &stage, live);
                    if !ck.out.violations.is_empty() {
                        return exec.values();
                    }
                }
                // final query on the live tree and on every shelved copy
                ck.check(&mut tree, &g, "final", true);
                for (i, (st, dg)) in shelf.iter_mut().enumerate() {
                    if ck.out.violations.is_empty() {
                        if tree_digest(st) != *dg {
                            ck.out.violations.push(Violation::new("shelved_copy_changed", format!("final: the structure of shelved copy {i} changed")).with("stage", "final"));
                        } else {
                            ck.check(st, &g, "final.shelved", true);
                        }
                    }
                }
                ck.out.nontrivial = n >= 4 && structural_moves >= 3 && kinds.len() >= 2 && query_between;
            }
            Mode::Annealer { iterations, init_temp, min_temp, cooling, adaptive, given_init, warm } => {
                let init_given = if *given_init {
                    let mut rng = DeciderRng { d: &mut exec, site: "c18.init", draws: 0, limit: 100_000 };
                    match catch(|| DecompTree::random_decomp(&g, &mut rng)) {
                        Caught::Ok(t) => {
                            if *warm {
                                // improve it first (workload generation; judged separately below)
                                let rng2 = DeciderRng { d: rng.d, site: "c18.warm", draws: 0, limit: 2_000_000 };
                                let g3 = g.clone();
                                match catch(move || {
                                    let mut a = RankwidthAnnealer::new_with_decomp(g3, t, rng2);
                                    a.set_iterations(150);
                                    a.run()
                                }) {
                                    Caught::Ok(t2) => Some(t2),
                                    _ => None,
                                }
                            } else {
                                Some(t)
                            }
                        }
                        _ => None,
                    }
                } else {
                    None
                };
                let rerun = sc.rerun;
                let tree2 = if rerun == 2 {
                    let mut rng = DeciderRng { d: &mut exec, site: "c18.init2", draws: 0, limit: 100_000 };
                    match catch(|| DecompTree::random_decomp(&g, &mut rng)) {
                        Caught::Ok(t) => Some(t),
                        _ => None,
                    }
                } else {
                    None
                };
                let res = {
                    let rng = DeciderRng { d: &mut exec, site: "c18.anneal", draws: 0, limit: 4_000_000 };
                    let g2 = g.clone();
                    catch(move || {
                        let mut a = match init_given {
                            Some(t) => RankwidthAnnealer::new_with_decomp(g2, t, rng),
                            None => RankwidthAnnealer::new(g2, rng),
                        };
                        a.set_iterations(*iterations)
                            .set_init_temp(*init_temp)
                            .set_min_temp(*min_temp)
                            .set_cooling_rate(*cooling)
                            .set_adaptive_cooling(*adaptive);
                        let init = a.init_decomp().clone();
                        let r = a.run();
                        let mut pairs = vec![(init, r.clone())];
                        if rerun > 0 {
                            match (rerun, tree2) {
                                (1, _) => {
                                    a.set_init_decomp(r);
                                }
                                (2, Some(t2)) => {
                                    a.set_init_decomp(t2);
                                }
                                _ => {
                                    a.set_iterations(*iterations / 2 + 1).set_adaptive_cooling(!*adaptive);
                                }
                            }
                            let init2 = a.init_decomp().clone();
                            let r2 = a.run();
                            pairs.push((init2, r2));
                        }
                        pairs
                    })
                };
                out.steps += *iterations as u64;
                match res {
                    Caught::Ok(pairs) => {
                        if pairs.len() > 1 {
                            out.probe("annealer_object_run_twice");
                        }
                        for (i, pr) in pairs.into_iter().enumerate() {
                            self.judge_annealer(sc, &g, Caught::Ok(pr), out, "annealer");
                            if i == 1 {
                                for v in out.violations.iter_mut() {
                                    if !v.detail.starts_with("second run") {
                                        v.detail = format!("second run of the same annealer object (rerun mode {rerun}): {}", v.detail);
                                    }
                                }
                            }
                            if !out.violations.is_empty() {
                                break;
                            }
                        }
                    }
                    Caught::Panic(m) => self.judge_annealer(sc, &g, Caught::Panic(m), out, "annealer"),
                    Caught::Budget => self.judge_annealer(sc, &g, Caught::Budget, out, "annealer"),
                }
            }
            Mode::RankDecomp => {
                let core = Core::new(exec, 1);
                let g2 = g.clone();
                let (res, core) = with_sim(core, move || quizx::rankwidth::rank_decomp(&g2));
                out.count("ambient_draws", core.stats.rng_draws);
                if core.stats.rng_draws > 0 {
                    out.probe("rank_decomp_used_rng_seam");
                }
                out.steps += 1000;
                let res = match res {
                    Caught::Ok(t) => Caught::Ok((t.clone(), t)),
                    Caught::Panic(m) => Caught::Panic(m),
                    Caught::Budget => Caught::Budget,
                };
                self.judge_annealer(sc, &g, res, out, "rank_decomp");
                return core.dec.values();
            }
        }
        exec.values()
    }

    fn judge_annealer<G: GraphLike>(
        &self,
        sc: &Sc,
        g: &G,
        res: Caught<(DecompTree, DecompTree)>,
        out: &mut RunOut,
        what: &str,
    ) {
        let n = sc.ids.len();
        match res {
            Caught::Ok((mut init, mut fin)) => {
                let ie = structural(&init, &sc.ids);
                let fe = structural(&fin, &sc.ids);
                match (ie, fe) {
                    (Ok(ie), Ok(fe)) => {
                        let (iw, _) = brute(&init, sc, &ie);
                        let (fw, _) = brute(&fin, sc, &fe);
                        out.ev(mix(iw as u64, fw as u64));
                        out.ev(tree_digest(&fin));
                        if what == "annealer" && fw > iw {
                            out.violations.push(
                                Violation::new(
                                    "annealer_wider_than_start",
                                    format!("annealer returned width {fw}, its starting tree has width {iw}"),
                                )
                                .with("where", what),
                            );
                        }
                        if fw < iw {
                            out.probe("annealer_improved_width");
                        }
                        let mut ck = Checker { sc, out, passive: false };
                        ck.check(&mut fin, g, what, true);
                        ck.check(&mut init, g, "init", true);
                        out.nontrivial = n >= 4 && !sc.edges.is_empty();
                    }
                    (Err(why), _) => {
                        out.violations.push(
                            Violation::new("tree_malformed", format!("{what}: initial tree: {why}"))
                                .with("stage", "init"),
                        );
                    }
                    (_, Err(why)) => {
                        out.violations.push(
                            Violation::new("tree_malformed", format!("{what}: returned tree: {why}"))
                                .with("stage", what),
                        );
                    }
                }
            }
            Caught::Panic(m) => {
                out.violations.push(
                    Violation::new(
                        "panic",
                        format!("{what} on a {n}-vertex graph with {} edges: {m}", sc.edges.len()),
                    )
                    .with("where", what)
                    .with("msg", norm_msg(&m))
                    .with("two_vertex", (n == 2).to_string())
                    .with("edgeless", sc.edges.is_empty().to_string()),
                );
            }
            Caught::Budget => {
                out.inconclusive = true;
            }
        }
    }
}

impl Property for C18 {
    type Sc = Sc;
    fn id(&self) -> &'static str {
        "C18"
    }
    fn level(&self) -> &'static str {
        "exploration"
    }
    fn rule(&self) -> String {
        "decider builds a graph (2..14 vertices; 15..26 in half of the annealer runs, ids with holes, density 0..1, vec or hash backend), a random initial decomposition and a history of 1..60 operations (leaf swap, local swap, subtree move, cached width/score query, clone-and-continue) whose internal random choices are decider draws through the existing `impl Rng` seam; or an annealer run with decider-chosen parameters; or rank_decomp through the ambient-RNG seam. Operations also include Fork (clone, put one copy on a shelf, continue on the other) and QueryShelved (a shelved copy must be structurally unchanged and report the brute-force width and score); in a third of the history runs the checker is passive (structure only between the scenario's own queries, no clones, queries judged against brute force alone). Vertex numberings: dense, small holes, starting far from 0, strides up to 70 (ids beyond 64 / 128 / 1000). Sub-batch small_long: 3..5 vertices, 150..400 operations. Non-trivial: >=4 vertices, >=3 structural moves of >=2 kinds and a cached query between two moves (history); >=4 vertices and >=1 edge (annealer). Distinct by (scenario digest, event digest).".into()
    }
    fn assumptions(&self) -> Vec<String> {
        vec![
            "the F2 rank oracle (bit-row elimination, self-tested) and the harness's own tree traversal are correct".into(),
            "graphs up to 14 vertices, histories up to 60 operations, annealer up to 300 iterations; nothing is claimed beyond these bounds".into(),
            "annealer parameters are kept positive (temperatures > 0, 0 < cooling rate < 1)".into(),
        ]
    }
    fn real_vs_stub(&self) -> Value {
        json!({"real": ["DecompTree (all moves, cache)", "RankwidthAnnealer::run", "rank_decomp", "both graph backends", "rand algorithms (random_range, random_bool)", "bitgauss rank"], "stubbed": ["entropy behind the caller-supplied Rng and behind rand::rng() in rank_decomp: decider draws"]})
    }
    fn sub_batches(&self) -> Vec<SubBatch> {
        vec![
            // (first, so that these long runs overlap with the rest of the batch)
            // a few graphs of 520..560 vertices with wide cuts (rank beyond 255): integer widths of
            // cached ranks and of the score
            SubBatch { name: "huge", quick: 3, thorough: 60 },
            SubBatch { name: "history", quick: 60_000, thorough: 4_000_000 },
            SubBatch { name: "annealer", quick: 40_000, thorough: 1_200_000 },
            SubBatch { name: "rank_decomp", quick: 400, thorough: 20_000 },
            // tiny trees, long histories: branches that need an unlucky streak of draws on a tree
            // with very few legal moves (3..5 leaves)
            SubBatch { name: "small_long", quick: 6_000, thorough: 200_000 },
        ]
    }
    fn expected_probes(&self) -> Vec<&'static str> {
        vec![
            "leaf_swap_changed_tree",
            "local_swap_changed_tree",
            "subtree_move_changed_tree",
            "leaf_swap_of_siblings_or_noop",
            "cached_query",
            "clone_continue",
            "annealer_improved_width",
            "rank_decomp_used_rng_seam",
            "two_vertex_graph",
            "edgeless_graph",
        ]
    }

    fn generate(&self, d: &mut Decider, _tier: Tier, sub: &str) -> Sc {
        // sizes: bias towards small, include the 2- and 3-vertex corner cases
        let n = if sub == "annealer" {
            // the annealer's "no wider than the start" clause is sharp on larger graphs only
            match d.choose("n.kind", 10) {
                0 => 2,
                1 => 3,
                2 => d.range("n", 4, 8) as usize,
                3 | 4 => d.range("n", 9, 14) as usize,
                // score (a sum over all tree edges) and width (their maximum) come apart on larger
                // graphs: only there can an accepted move lower the one and raise the other
                _ => d.range("n", 15, 26) as usize,
            }
        } else if sub == "huge" {
            520 + d.choose("n.huge", 41)
        } else if sub == "small_long" {
            3 + d.choose("n.small", 3)
        } else {
            match d.choose("n.kind", 10) {
                0 => 2,
                1 => 3,
                2..=5 => d.range("n", 4, 8) as usize,
                _ => d.range("n", 6, 14) as usize,
            }
        };
        // vertex numbering: dense; small holes; a numbering that starts far from 0; wide strides
        // (ids beyond 64 / 128 / 1000 on graphs of a dozen vertices: machine-word and table-size
        // boundaries are about the ids, not about the number of vertices)
        let idmode = match d.choose("idmode", 9) {
            0..=3 => 0,
            4 | 5 => 1,
            6 => 2,
            7 => 3,
            _ => 4,
        };
        let mut ids = vec![];
        let mut next = match idmode {
            2 | 4 => 40 + d.choose("idstart", 200),
            _ => 0usize,
        };
        for _ in 0..n {
            next += match idmode {
                1 | 2 => d.choose("hole", 3),
                3 | 4 => d.choose("stride", 70),
                _ => 0,
            };
            ids.push(next);
            next += 1;
        }
        let density = if sub == "huge" {
            d.range("density.huge", 35, 65)
        } else {
            match d.choose("density.kind", 8) {
            0 => 0,
            1 => 100,
            _ => d.range("density", 5, 95),
            }
        };
        let mut edges = vec![];
        for a in 0..n {
            for b in (a + 1)..n {
                if (d.choose("edge", 100) as i64) < density {
                    edges.push((a, b));
                }
            }
        }
        let mode = match sub {
            "huge" => Mode::History { ops: vec![Op::Score, Op::SwapLeaves, Op::Rankwidth, Op::MoveSubtree, Op::Score] },
            "history" | "small_long" => {
                let len = if sub == "small_long" { 150 + d.choose("len.long", 250) } else { 1 + d.choose("len", 60) };
                // per-run operation mix (swarm style)
                let w: Vec<usize> = (0..8).map(|_| d.choose("w", 5)).collect();
                let tot: usize = w.iter().sum::<usize>().max(1);
                let kinds = [
                    Op::SwapLeaves,
                    Op::LocalSwap,
                    Op::MoveSubtree,
                    Op::Rankwidth,
                    Op::Score,
                    Op::CloneContinue,
                    Op::Fork,
                    Op::QueryShelved,
                ];
                let ops = (0..len)
                    .map(|_| {
                        let mut x = d.choose("op", tot);
                        let mut k = 0;
                        while k < 7 && x >= w[k] {
                            x -= w[k];
                            k += 1;
                        }
                        if w.iter().sum::<usize>() == 0 {
                            kinds[d.choose("op2", 8)]
                        } else {
                            kinds[k]
                        }
                    })
                    .collect();
                Mode::History { ops }
            }
            "annealer" => Mode::Annealer {
                iterations: d.choose("iters", 301),
                init_temp: [0.05, 0.05, 0.1, 0.5, 1.0, 5.0, 10.0][d.choose("t0", 7)],
                min_temp: [0.001, 0.01, 0.05, 0.5][d.choose("tmin", 4)],
                cooling: [0.5, 0.9, 0.95, 0.99, 0.999][d.choose("cool", 5)],
                adaptive: d.coin("adaptive", 1, 2),
                given_init: d.coin("given", 2, 3),
                warm: d.coin("warm", 1, 2),
            },
            _ => Mode::RankDecomp,
        };
        // (the huge graphs run with the passive checker: the full one recomputes everything three times)
        let passive = sub == "huge" || ((sub == "history" || sub == "small_long") && d.coin("passive", 1, 3));
        let rerun = if sub == "annealer" && d.coin("rerun", 1, 3) { 1 + d.choose("rerun.kind", 3) as u8 } else { 0 };
        Sc { ids, edges, hash_backend: d.coin("backend", 1, 2), mode, passive, rerun }
    }

    fn execute(&self, sc: &Sc, _sub: &str, exec: Decider, _env: &Env) -> RunOut {
        let mut out = RunOut { engine: "native", ..Default::default() };
        out.scenario_digest = crate::decider::hash_str(&serde_json::to_string(sc).unwrap());
        if sc.ids.len() == 2 {
            out.probe("two_vertex_graph");
        }
        if sc.edges.is_empty() {
            out.probe("edgeless_graph");
        }
        let trace = if sc.hash_backend {
            self.exec_generic::<quizx::hash_graph::Graph>(sc, exec, &mut out)
        } else {
            self.exec_generic::<quizx::vec_graph::Graph>(sc, exec, &mut out)
        };
        out.exec_trace = trace;
        for v in &out.violations {
            out.event_digest = mix(out.event_digest, crate::decider::hash_str(&v.key()));
        }
        out.sample = Some(json!({"scenario": sc, "violations": out.violations.len()}));
        out
    }

    fn shrink(&self, sc: &Sc) -> Vec<Sc> {
        let mut c = vec![];
        if sc.ids.len() > 100 {
            // the huge graphs: each candidate costs seconds; keep the scenario as found
            return c;
        }
        if sc.rerun != 0 {
            c.push(Sc { rerun: 0, ..sc.clone() });
        }
        if let Mode::History { ops } = &sc.mode {
            if ops.len() > 1 {
                let h = ops.len() / 2;
                c.push(Sc { mode: Mode::History { ops: ops[..h].to_vec() }, ..sc.clone() });
                c.push(Sc { mode: Mode::History { ops: ops[h..].to_vec() }, ..sc.clone() });
                for i in 0..ops.len() {
                    let mut o = ops.clone();
                    o.remove(i);
                    c.push(Sc { mode: Mode::History { ops: o }, ..sc.clone() });
                }
            }
        }
        if let Mode::Annealer { iterations, init_temp, min_temp, cooling, adaptive, given_init, warm } = &sc.mode {
            if *iterations > 1 {
                c.push(Sc {
                    mode: Mode::Annealer {
                        iterations: iterations / 2,
                        init_temp: *init_temp,
                        min_temp: *min_temp,
                        cooling: *cooling,
                        adaptive: *adaptive,
                        given_init: *given_init,
                        warm: *warm,
                    },
                    ..sc.clone()
                });
            }
        }
        // drop the last vertex
        if sc.ids.len() > 2 {
            let n = sc.ids.len() - 1;
            c.push(Sc {
                ids: sc.ids[..n].to_vec(),
                edges: sc.edges.iter().copied().filter(|&(a, b)| a < n && b < n).collect(),
                ..sc.clone()
            });
        }
        // drop edges
        if sc.edges.len() > 1 {
            let h = sc.edges.len() / 2;
            c.push(Sc { edges: sc.edges[..h].to_vec(), ..sc.clone() });
            c.push(Sc { edges: sc.edges[h..].to_vec(), ..sc.clone() });
        }
        if sc.edges.len() <= 12 {
            for i in 0..sc.edges.len() {
                let mut e = sc.edges.clone();
                e.remove(i);
                c.push(Sc { edges: e, ..sc.clone() });
            }
        }
        // remove holes, prefer the vector backend
        let dense: Vec<usize> = (0..sc.ids.len()).collect();
        if sc.ids != dense {
            c.push(Sc { ids: dense, ..sc.clone() });
        }
        if sc.hash_backend {
            c.push(Sc { hash_backend: false, ..sc.clone() });
        }
        c
    }

    fn self_test(&self) -> Result<(), String> {
        f2::self_test()
    }
}
