//! C19 — seeded workload generators are reproducible across executions (other
//! thread, other process, other hash seeds, other OS entropy) without touching
//! ambient randomness, and deliver the instances they promise.

use crate::decider::{hash_str, mix, Decider};
use crate::framework::*;
use crate::gatesim::{self, HCirc, HGate, GK};
use crate::ring::Zw;
use crate::simcore::{with_sim, Caught, Core};
use crate::zxeval::{Dg, Val};
use quizx::circuit::Circuit;
use quizx::gate::GType;
use quizx::random_graph::EquatorialStabilizerStateBuilder;
use quizx::verif::Snap;
use serde::{Deserialize, Serialize};
use serde_json::{json, Value};

#[derive(Clone, Debug, Serialize, Deserialize, PartialEq)]
pub enum Gen {
    /// qubits, depth, (p_cnot, p_cz, p_h, p_s, p_t) in 1/1000, preset (0 none, 1 clifford_t(p_t), 2 uniform)
    /// `tweaks`: setter calls made after the preset, in order: (0..=4, v) = p_cnot / p_cz / p_h /
    /// p_s / p_t (v in 1/1000), (5, _) = with_cliffords(), (6, _) = uniform(), (7, v) = clifford_t(v)
    Random {
        qubits: usize,
        depth: usize,
        p: [u32; 5],
        preset: u8,
        #[serde(default)]
        tweaks: Vec<(u8, u32)>,
    },
    HiddenShift { qubits: usize, clifford_depth: usize, n_ccz: usize },
    PauliGadget { qubits: usize, depth: usize, min_weight: usize, max_weight: usize, phase_denom: usize },
    StabState { qubits: usize, hash_backend: bool },
    SurfaceCode { distance: usize, rounds: usize },
}

#[derive(Clone, Debug, Serialize, Deserialize, PartialEq)]
pub struct Sc {
    pub gen: Gen,
    pub seed: u64,
    pub via_child: bool,
    /// where `.seed(n)` is called among the builder's setters: 0 first, 1 last, 2 in the middle
    #[serde(default)]
    pub seed_pos: u8,
    /// how many objects are built one after the other from the one seeded builder
    /// (0 and 1 both mean one): `seed(s); build(); build(); …` must be reproducible as a whole
    #[serde(default)]
    pub batch: u8,
    /// 0: fresh builders only; 1: one more build on a builder that is re-seeded with the same seed
    /// after its first batch; 2: one more build on a builder that was used before under another
    /// seed (see `build_hist`)
    #[serde(default)]
    pub history: u8,
}

#[derive(Clone, Copy)]
pub struct C19;

/// The built object, in comparable form.
#[derive(Clone, Debug, PartialEq)]
enum Obj {
    Circ(Circuit),
    CircShift(Circuit, Vec<u8>),
    Graph(Snap),
}

fn build(gen: &Gen, seed: u64, seed_pos: u8, batch: u8) -> Vec<Obj> {
    build_hist(gen, seed, seed_pos, batch, 0)
}

/// `history`: what the builder went through besides the seeded build itself.
///   0  a fresh builder;
///   1  the same builder is seeded again with the same seed after the batch and builds the batch a
///      second time - the second batch is returned;
///   2  a used builder: before it is given the seed and the parameters it has already built an
///      object under another seed (with the same parameters, with gadgets of full weight, or on a
///      larger register, depending on the seed).
/// Same seed and parameters must give the same objects in all three.
fn build_hist(gen: &Gen, seed: u64, seed_pos: u8, batch: u8, history: u8) -> Vec<Obj> {
    let k = batch.max(1) as usize;
    let warm = history == 2;
    let wseed = seed.wrapping_mul(0x9e37_79b9).wrapping_add(77);
    let wkind = seed % 3;
    match gen {
        Gen::Random { qubits, depth, p, preset, tweaks } => {
            let mut b = Circuit::random();
            if warm {
                // the gate-kind probabilities stay at their defaults here: `clifford_t` below derives
                // its values from whatever p_cz currently is, so touching them would change the
                // parameters of the build under test
                b.seed(wseed).qubits(if wkind == 2 { *qubits + 2 } else { (*qubits).max(2) }).depth(*depth + wkind as usize);
                let _ = b.build();
            }
            if seed_pos == 0 {
                b.seed(seed);
            }
            b.qubits(*qubits);
            if seed_pos == 2 {
                b.seed(seed);
            }
            b.depth(*depth);
            match preset {
                1 => {
                    b.clifford_t(p[4] as f32 / 1000.0);
                }
                2 => {
                    b.uniform();
                }
                _ => {
                    b.p_cnot(p[0] as f32 / 1000.0)
                        .p_cz(p[1] as f32 / 1000.0)
                        .p_h(p[2] as f32 / 1000.0)
                        .p_s(p[3] as f32 / 1000.0)
                        .p_t(p[4] as f32 / 1000.0);
                }
            }
            for &(k, v) in tweaks {
                let x = v as f32 / 1000.0;
                match k {
                    0 => b.p_cnot(x),
                    1 => b.p_cz(x),
                    2 => b.p_h(x),
                    3 => b.p_s(x),
                    4 => b.p_t(x),
                    5 => b.with_cliffords(),
                    6 => b.uniform(),
                    _ => b.clifford_t(x),
                };
            }
            if seed_pos == 1 {
                b.seed(seed);
            }
            let first: Vec<Obj> = (0..k).map(|_| Obj::Circ(b.build())).collect();
            if history == 1 {
                b.seed(seed);
                return (0..k).map(|_| Obj::Circ(b.build())).collect();
            }
            first
        }
        Gen::HiddenShift { qubits, clifford_depth, n_ccz } => {
            let mut b = Circuit::random_hidden_shift();
            if warm {
                b.seed(wseed).qubits(if wkind == 2 { *qubits + 2 } else { *qubits }).clifford_depth(*clifford_depth + wkind as usize).n_ccz(*n_ccz);
                let _ = b.build();
            }
            if seed_pos == 0 {
                b.seed(seed);
            }
            b.qubits(*qubits);
            if seed_pos == 2 {
                b.seed(seed);
            }
            b.clifford_depth(*clifford_depth).n_ccz(*n_ccz);
            if seed_pos == 1 {
                b.seed(seed);
            }
            let mut round = |b: &mut quizx::generate::RandomHiddenShiftCircuitBuilder| -> Vec<Obj> {
                (0..k)
                    .map(|_| {
                        let (c, s) = b.build();
                        Obj::CircShift(c, s)
                    })
                    .collect()
            };
            let first = round(&mut b);
            if history == 1 {
                b.seed(seed);
                return round(&mut b);
            }
            first
        }
        Gen::PauliGadget { qubits, depth, min_weight, max_weight, phase_denom } => {
            let mut b = Circuit::random_pauli_gadget();
            if warm {
                let wq = if wkind == 2 { *qubits + 2 } else { *qubits };
                let (wmin, wmax) = if wkind == 1 { (wq, wq) } else { (*min_weight, *max_weight) };
                b.seed(wseed).qubits(wq).depth((*depth).max(1) + wkind as usize).min_weight(wmin).max_weight(wmax).phase_denom(*phase_denom);
                let _ = b.build();
            }
            if seed_pos == 0 {
                b.seed(seed);
            }
            b.qubits(*qubits).depth(*depth);
            if seed_pos == 2 {
                b.seed(seed);
            }
            // the bounds are two independent settings: the order in which they are given (and
            // whatever an earlier configuration left in the builder) must not matter; equal bounds
            // also through `weight`
            match (seed >> 5) & 3 {
                1 | 2 => {
                    b.max_weight(*max_weight).min_weight(*min_weight);
                }
                3 if min_weight == max_weight => {
                    b.weight(*min_weight);
                }
                _ => {
                    b.min_weight(*min_weight).max_weight(*max_weight);
                }
            }
            b.phase_denom(*phase_denom);
            if seed_pos == 1 {
                b.seed(seed);
            }
            let first: Vec<Obj> = (0..k).map(|_| Obj::Circ(b.build())).collect();
            if history == 1 {
                b.seed(seed);
                return (0..k).map(|_| Obj::Circ(b.build())).collect();
            }
            first
        }
        Gen::StabState { qubits, hash_backend } => {
            let mut b = EquatorialStabilizerStateBuilder::new();
            if warm {
                b.seed(wseed).qubits(*qubits + wkind as usize);
                let _: quizx::vec_graph::Graph = b.build();
            }
            if seed_pos != 1 {
                b.seed(seed);
            }
            b.qubits(*qubits);
            if seed_pos == 1 {
                b.seed(seed);
            }
            let mut round = |b: &mut EquatorialStabilizerStateBuilder| -> Vec<Obj> {
                (0..k)
                    .map(|_| {
                        if *hash_backend {
                            let g: quizx::hash_graph::Graph = b.build();
                            Obj::Graph(Snap::of(&g))
                        } else {
                            let g: quizx::vec_graph::Graph = b.build();
                            Obj::Graph(Snap::of(&g))
                        }
                    })
                    .collect()
            };
            let first = round(&mut b);
            if history == 1 {
                b.seed(seed);
                return round(&mut b);
            }
            first
        }
        Gen::SurfaceCode { distance, rounds } => {
            let b = Circuit::surface_code().distance(*distance).rounds(*rounds).build();
            (0..k).map(|_| Obj::Circ(b.clone())).collect()
        }
    }
}

fn obj_digest(o: &[Obj]) -> u64 {
    hash_str(&format!("{:?}", o))
}

fn obj_size(o: &[Obj]) -> usize {
    o.iter()
        .map(|o| match o {
            Obj::Circ(c) | Obj::CircShift(c, _) => c.num_gates(),
            Obj::Graph(s) => s.verts.len() / 2,
        })
        .min()
        .unwrap_or(0)
}

fn gate_to_h(g: &quizx::gate::Gate) -> Option<HGate> {
    let k = match g.t {
        GType::HAD => GK::H,
        GType::Z => GK::Z,
        GType::CZ => GK::CZ,
        GType::CCZ => GK::CCZ,
        GType::CNOT => GK::CX,
        GType::S => GK::S,
        GType::T => GK::T,
        _ => return None,
    };
    Some(HGate { k, qs: g.qs.clone() })
}

/// Every gate of every generated circuit acts on distinct qubits within range.
fn check_gate_arguments(c: &Circuit) -> Result<(), String> {
    for g in &c.gates {
        let mut s = g.qs.clone();
        s.sort();
        s.dedup();
        if s.len() != g.qs.len() {
            return Err(format!("{:?} with repeated qubit arguments {:?}", g.t, g.qs));
        }
        if g.qs.iter().any(|&q| q >= c.num_qubits()) {
            return Err(format!("{:?} on a qubit out of range: {:?} (circuit has {} qubits)", g.t, g.qs, c.num_qubits()));
        }
    }
    Ok(())
}

/// The gate-kind probabilities (cnot, cz, h, s, t) a builder ends up with after the preset and
/// the later setter calls, by the documented meaning of the setters (`with_cliffords`: the
/// probability left over by T and CZ, split evenly between CNOT, H and S; `clifford_t(p)` =
/// `p_t(p)` then `with_cliffords()`; `uniform()`: 0.2 each).
fn effective_probs(p: &[u32; 5], preset: u8, tweaks: &[(u8, u32)]) -> [f32; 5] {
    let mut m = [0.0f32; 5];
    let with_cliffords = |m: &mut [f32; 5]| {
        let q = (1.0 - m[4] - m[1]) / 3.0;
        m[0] = q;
        m[2] = q;
        m[3] = q;
    };
    match preset {
        1 => {
            m[4] = p[4] as f32 / 1000.0;
            with_cliffords(&mut m);
        }
        2 => m = [0.2; 5],
        _ => {
            for i in 0..5 {
                m[i] = p[i] as f32 / 1000.0;
            }
        }
    }
    for &(k, v) in tweaks {
        let x = v as f32 / 1000.0;
        match k {
            0..=4 => m[k as usize] = x,
            5 => with_cliffords(&mut m),
            6 => m = [0.2; 5],
            _ => {
                m[4] = x;
                with_cliffords(&mut m);
            }
        }
    }
    m
}

fn check_random(c: &Circuit, qubits: usize, depth: usize, probs: [f32; 5]) -> Result<(), String> {
    if c.num_qubits() != qubits {
        return Err(format!("circuit has {} qubits, asked for {}", c.num_qubits(), qubits));
    }
    if c.num_gates() > depth {
        return Err(format!("{} gates for depth {}", c.num_gates(), depth));
    }
    for g in &c.gates {
        let (idx, arity) = match g.t {
            GType::CNOT => (0, 2),
            GType::CZ => (1, 2),
            GType::HAD => (2, 1),
            GType::S => (3, 1),
            GType::T => (4, 1),
            other => return Err(format!("unexpected gate kind {:?}", other)),
        };
        if probs[idx] <= 0.0 {
            return Err(format!("gate kind {:?} was given probability 0", g.t));
        }
        if g.qs.len() != arity {
            return Err(format!("{:?} with {} qubit arguments", g.t, g.qs.len()));
        }
        if g.qs.iter().any(|&q| q >= qubits) {
            return Err(format!("{:?} on qubit out of range {:?}", g.t, g.qs));
        }
        if arity == 2 && g.qs[0] == g.qs[1] {
            return Err(format!("{:?} with repeated qubit argument {:?}", g.t, g.qs));
        }
    }
    Ok(())
}

fn check_gadgets(c: &Circuit, qubits: usize, depth: usize, minw: usize, maxw: usize, denom: usize) -> Result<(), String> {
    if c.num_qubits() != qubits {
        return Err(format!("circuit has {} qubits, asked for {}", c.num_qubits(), qubits));
    }
    let gates: Vec<&quizx::gate::Gate> = c.gates.iter().collect();
    let mut i = 0;
    let mut n_gadgets = 0;
    while i < gates.len() {
        // basis-change layer
        let mut lc = vec![];
        while i < gates.len() && gates[i].t != GType::ParityPhase {
            lc.push(gates[i]);
            i += 1;
        }
        if i == gates.len() {
            return Err("trailing gates without a parity-phase gate".into());
        }
        let pp = gates[i];
        i += 1;
        n_gadgets += 1;
        let w = pp.qs.len();
        if w < minw || w > maxw {
            return Err(format!("gadget weight {} outside [{}, {}]", w, minw, maxw));
        }
        let mut sorted = pp.qs.clone();
        sorted.sort();
        sorted.dedup();
        if sorted.len() != w {
            return Err(format!("gadget on repeated qubits {:?}", pp.qs));
        }
        if pp.qs.iter().any(|&q| q >= qubits) {
            return Err(format!("gadget qubit out of range {:?}", pp.qs));
        }
        let r = pp.phase.to_rational();
        let num = *r.numer() as i128 * denom as i128;
        if num % (*r.denom() as i128) != 0 {
            return Err(format!("phase {} is not a multiple of 1/{}", r, denom));
        }
        if r == num::Rational64::new(0, 1) {
            return Err("trivial phase 0".into());
        }
        if denom >= 4 && denom % 2 == 0 && pp.phase.is_clifford() {
            return Err(format!("Clifford phase {} for even denominator {}", r, denom));
        }
        for g in &lc {
            let ok = g.qs.len() == 1
                && pp.qs.contains(&g.qs[0])
                && (g.t == GType::HAD
                    || (g.t == GType::XPhase && g.phase.to_rational() == num::Rational64::new(1, 2)));
            if !ok {
                return Err(format!("basis-change gate {:?} not H / X(1/2) on a gadget qubit", g));
            }
        }
        // followed by the adjoint layer, reversed
        for g in lc.iter().rev() {
            if i >= gates.len() {
                return Err("basis-change layer is not undone".into());
            }
            let mut adj = (*g).clone();
            adj.adjoint();
            if *gates[i] != adj {
                return Err(format!("basis-change layer not followed by its adjoint: {:?} vs {:?}", gates[i], adj));
            }
            i += 1;
        }
    }
    if n_gadgets != depth {
        return Err(format!("{} gadgets for depth {}", n_gadgets, depth));
    }
    Ok(())
}

impl C19 {
    fn judge(&self, sc: &Sc, obj: &Obj, out: &mut RunOut) {
        let fail = |out: &mut RunOut, class: &str, why: String, gen: &str| {
            out.violations.push(Violation::new(class, why).with("generator", gen));
        };
        if let Obj::Circ(c) | Obj::CircShift(c, _) = obj {
            if let Err(why) = check_gate_arguments(c) {
                fail(out, "promise_broken", format!("{:?} (seed {}): {why}", sc.gen, sc.seed), gen_name(&sc.gen));
                return;
            }
        }
        match (&sc.gen, obj) {
            (Gen::Random { qubits, depth, p, preset, tweaks }, Obj::Circ(c)) => {
                let probs = effective_probs(p, *preset, tweaks);
                if let Err(why) = check_random(c, *qubits, *depth, probs) {
                    fail(out, "promise_broken", format!("random circuit (seed {}): {why}", sc.seed), "random");
                }
            }
            (Gen::HiddenShift { qubits, .. }, Obj::CircShift(c, shift)) => {
                if c.num_qubits() != *qubits || shift.len() != *qubits {
                    fail(out, "promise_broken", format!("hidden shift: {} qubits / shift of length {} for {} qubits", c.num_qubits(), shift.len(), qubits), "hidden_shift");
                    return;
                }
                let mut h = HCirc::new(*qubits);
                for g in &c.gates {
                    match gate_to_h(g) {
                        Some(x) => h.gates.push(x),
                        None => {
                            fail(out, "promise_broken", format!("hidden shift: unexpected gate {:?}", g), "hidden_shift");
                            return;
                        }
                    }
                }
                let st = gatesim::run_on_basis::<Zw>(&h, 0).expect("exact");
                let bits: Vec<bool> = shift.iter().map(|&b| b != 0).collect();
                let amp = &st[gatesim::idx_of(&bits)];
                let p = amp.norm_sqr();
                if p != Zw::one() {
                    let (re, _) = p.to_c64();
                    fail(
                        out,
                        "hidden_shift_not_deterministic",
                        format!("hidden shift (seed {}): |<shift|C|0>|^2 = {} ~ {:.6}, not 1", sc.seed, p.show(), re),
                        "hidden_shift",
                    );
                }
                out.probe("hidden_shift_probability_checked");
            }
            (Gen::PauliGadget { qubits, depth, min_weight, max_weight, phase_denom }, Obj::Circ(c)) => {
                if let Err(why) = check_gadgets(c, *qubits, *depth, *min_weight, *max_weight, *phase_denom) {
                    fail(out, "promise_broken", format!("pauli gadget circuit (seed {}): {why}", sc.seed), "pauli_gadget");
                }
            }
            (Gen::StabState { qubits, .. }, Obj::Graph(s)) => {
                let dg = Dg::from_snap(s);
                if dg.outputs.len() != *qubits || !dg.inputs.is_empty() {
                    fail(out, "promise_broken", format!("stabiliser state on {} qubits has {} outputs", qubits, dg.outputs.len()), "stab_state");
                    return;
                }
                // structural oracle, any width: n Z spiders with phases k*pi/2, each wired by one plain
                // edge to its own output, Hadamard edges between spiders, nothing else. Every amplitude
                // of such a diagram has modulus |scalar| * 2^(-E/2), so the squared norm is
                // |scalar|^2 * 2^(n - E): a unit vector iff |scalar|^2 = 2^(E - n), exactly.
                {
                    use crate::zxeval::{Sc as DSc, VT};
                    let n = *qubits;
                    let is_out: std::collections::BTreeSet<usize> = dg.outputs.iter().copied().collect();
                    let ty: std::collections::BTreeMap<usize, VT> = dg.verts.iter().map(|v| (v.id, v.ty)).collect();
                    let mut e_h = 0i64;
                    let mut wired: std::collections::BTreeMap<usize, usize> = Default::default();
                    let mut bad: Option<String> = None;
                    if dg.verts.len() != 2 * n || is_out.len() != n {
                        bad = Some(format!("{} vertices and {} distinct outputs for {} qubits", dg.verts.len(), is_out.len(), n));
                    }
                    for v in &dg.verts {
                        match v.ty {
                            VT::B if is_out.contains(&v.id) => {}
                            VT::Z if (v.den == 1 || v.den == 2) => {}
                            _ => bad = Some(format!("vertex {} is {:?} with phase {}/{}", v.id, v.ty, v.num, v.den)),
                        }
                    }
                    for &(a, b, h) in &dg.edges {
                        match (ty.get(&a), ty.get(&b)) {
                            (Some(VT::Z), Some(VT::Z)) if h && a != b => e_h += 1,
                            (Some(VT::Z), Some(VT::B)) | (Some(VT::B), Some(VT::Z)) if !h => {
                                let (z, o) = if ty[&a] == VT::Z { (a, b) } else { (b, a) };
                                if wired.insert(z, o).is_some() {
                                    bad = Some(format!("spider {z} carries two outputs"));
                                }
                            }
                            _ => bad = Some(format!("unexpected edge {a}-{b} (hadamard={h})")),
                        }
                    }
                    if bad.is_none() && wired.len() != n {
                        bad = Some(format!("{} of {} spiders carry an output", wired.len(), n));
                    }
                    if let Some(why) = bad {
                        fail(out, "promise_broken", format!("stabiliser state (seed {}) is not a graph state with outputs: {why}", sc.seed), "stab_state");
                        return;
                    }
                    out.probe("stab_state_structural_norm_checked");
                    let ok = match &dg.scalar {
                        DSc::Exact(z) => z.norm_sqr() == Zw::sqrt2_pow(2 * (e_h - n as i64)),
                        DSc::Float(..) => false,
                    };
                    if !ok {
                        fail(
                            out,
                            "stab_state_not_normalised",
                            format!("stabiliser state (seed {}, {} qubits, {} Hadamard edges): |scalar|^2 is not 2^({}): squared norm is not 1", sc.seed, n, e_h, e_h - n as i64),
                            "stab_state",
                        );
                        return;
                    }
                    if n > 10 {
                        if n > 64 {
                            out.probe("stab_state_wider_than_a_machine_word");
                        }
                        return;
                    }
                }
                match dg.tensor(20) {
                    Ok(t) => {
                        let mut n = Zw::zero();
                        let mut exact = true;
                        for v in &t {
                            match v {
                                Val::Exact(z) => n = n.add(&z.norm_sqr()),
                                _ => exact = false,
                            }
                        }
                        out.probe("stab_state_norm_checked");
                        if !exact || n != Zw::one() {
                            fail(out, "stab_state_not_normalised", format!("stabiliser state (seed {}): squared norm = {}", sc.seed, n.show()), "stab_state");
                        }
                    }
                    Err(e) => panic!("stabiliser state not evaluable: {e:?}"),
                }
            }
            (Gen::SurfaceCode { distance, .. }, Obj::Circ(c)) => {
                if c.num_qubits() != 2 * distance * distance - 1 {
                    fail(out, "promise_broken", format!("surface code d={} on {} qubits", distance, c.num_qubits()), "surface_code");
                }
            }
            _ => panic!("generator/object mismatch"),
        }
    }
}

/// Child-process entry: build and print the digest of the object.
pub fn child_gen(spec: &str) -> i32 {
    let sc: Sc = serde_json::from_str(spec).expect("spec json");
    let r = std::panic::catch_unwind(|| build(&sc.gen, sc.seed, sc.seed_pos, sc.batch));
    match r {
        Ok(o) => println!("OBJ {:016x}", obj_digest(&o)),
        Err(_) => println!("OBJ panic"),
    }
    0
}

fn gen_name(g: &Gen) -> &'static str {
    match g {
        Gen::Random { .. } => "random",
        Gen::HiddenShift { .. } => "hidden_shift",
        Gen::PauliGadget { .. } => "pauli_gadget",
        Gen::StabState { .. } => "stab_state",
        Gen::SurfaceCode { .. } => "surface_code",
    }
}

impl Property for C19 {
    type Sc = Sc;
    fn id(&self) -> &'static str {
        "C19"
    }
    fn level(&self) -> &'static str {
        "exploration"
    }
    fn rule(&self) -> String {
        "decider picks a generator (random circuit incl. presets, hidden shift, Pauli gadget, equatorial stabiliser state; surface-code builder as the unseeded control), admissible parameters and a seed; the object is built (i) twice on fresh builders with the ambient-RNG and hash-order seams installed (ambient draws and randomised-map creations must be 0 during a seeded build), (ii) on another OS thread, (iii) for a fraction in a child process (other RandomState keys, ASLR, OS entropy), (i') on a builder with a past - seeded again with the same seed after its first batch, or used before under another seed (same parameters / full-weight gadgets / a larger register), (i'') as a task of a worker of a 2..4-thread rayon pool (a third of the runs), and compared structurally; stabiliser states up to 140 qubits (structural norm oracle: squared norm = |scalar|^2 * 2^(n-E) exactly), gadget circuits up to 139 qubits x 800 gadgets, weight ranges that reach the whole register; then the promises are checked: parameter conformance, |<shift|C|0>|^2 = 1 exactly by the gate simulator, squared norm 1 exactly by the ZX evaluator, gadget structure. Non-trivial: >=5 gates / >=3 spiders and the two neighbouring seeds give different objects. Distinct by (scenario digest, event digest).".into()
    }
    fn assumptions(&self) -> Vec<String> {
        vec![
            "admissible parameters: random circuit 1..8 qubits with probabilities summing to <= 1; hidden shift even n in 6..10 (12 thorough); gadget 1 <= min <= max <= qubits, denominators 1..16; stabiliser states 1..8 qubits".into(),
            "the gate simulator and ZX evaluator are correct (self-tested)".into(),
        ]
    }
    fn real_vs_stub(&self) -> Value {
        json!({"real": ["all builders in generate.rs and random_graph.rs", "StdRng::seed_from_u64", "both graph backends", "a real second OS thread and a real child process"], "stubbed": ["entropy behind rand::rng() while a seeded build runs in-process: decider draws, counted (must stay 0)"]})
    }
    fn sub_batches(&self) -> Vec<SubBatch> {
        vec![
            SubBatch { name: "random", quick: 12_000, thorough: 800_000 },
            SubBatch { name: "hidden_shift", quick: 1_500, thorough: 40_000 },
            SubBatch { name: "pauli_gadget", quick: 8_000, thorough: 500_000 },
            SubBatch { name: "stab_state", quick: 3_000, thorough: 200_000 },
            SubBatch { name: "surface_code", quick: 40, thorough: 400 },
            SubBatch { name: "long", quick: 256, thorough: 3_000 },
        ]
    }
    fn expected_probes(&self) -> Vec<&'static str> {
        vec![
            "hidden_shift_probability_checked",
            "stab_state_norm_checked",
            "child_process_compared",
            "other_thread_compared",
            "random.zero_probability_kind",
            "random.sum_below_one",
        ]
    }

    fn generate(&self, d: &mut Decider, tier: Tier, sub: &str) -> Sc {
        let seed = match d.choose("seedkind", 4) {
            0 => d.choose("seed.small", 16) as u64,
            1 => u64::MAX - d.choose("seed.top", 4) as u64,
            _ => d.draw64("seed"),
        };
        let gen = match sub {
            // `long`: hundreds of thousands of gates per circuit, so that events of probability
            // 2^-24 per gate (a draw that lands exactly on a boundary between two gate kinds, one
            // of them with probability 0) happen a few times per batch
            "random" | "long" => {
                let long = sub == "long";
                let qubits = if long {
                    2 + d.choose("q", 4)
                } else if d.coin("q1", 1, 20) {
                    1
                } else if d.coin("qwide", 1, 10) {
                    // wider than a machine word
                    60 + d.choose("qw", 80)
                } else {
                    2 + d.choose("q", 7)
                };
                let depth = if long {
                    (1 << 18) + d.choose("depth.long", 1 << 18)
                } else if d.coin("deep", 1, 12) {
                    200 + d.choose("depth.deep", 400)
                } else {
                    d.choose("depth", 61)
                };
                let preset = match d.choose("preset", 6) {
                    _ if long => 0,
                    0 => 1,
                    1 => 2,
                    _ => 0,
                };
                // probabilities: some zero, sum <= 1000
                let mut p = [0u32; 5];
                let mut left = 1000u32;
                let order = d.permutation("porder", 5);
                let fill = d.coin("fill", 1, 2);
                for (k, &i) in order.iter().enumerate() {
                    if qubits == 1 && i < 2 {
                        continue;
                    }
                    if d.coin("pzero", 1, 3) {
                        continue;
                    }
                    let x = if k == 4 && fill { left } else { d.choose("p", left as usize + 1) as u32 };
                    p[i] = x;
                    left -= x;
                }
                if preset == 1 {
                    p[4] = d.choose("pt", 1001) as u32;
                }
                let preset = if qubits == 1 { 0 } else { preset };
                // later setter calls in a third of the runs (kept only if every probability stays
                // in [0, 1] and their sum does not exceed 1: admissible parameters)
                let mut tweaks: Vec<(u8, u32)> = vec![];
                if qubits >= 2 && !long && d.coin("tweaks", 1, 3) {
                    for _ in 0..1 + d.choose("ntweaks", 3) {
                        let k = d.choose("tweak.kind", 8) as u8;
                        let v = if d.coin("tweak.zero", 1, 2) { 0 } else { d.choose("tweak.v", 401) as u32 };
                        tweaks.push((k, v));
                    }
                    let e = effective_probs(&p, preset, &tweaks);
                    if e.iter().any(|x| *x < 0.0 || *x > 1.0) || e.iter().sum::<f32>() > 1.0005 {
                        tweaks.clear();
                    }
                }
                Gen::Random { qubits, depth, p, preset, tweaks }
            }
            "hidden_shift" => {
                let maxn = if tier == Tier::Thorough { 12 } else { 10 };
                let qubits = 6 + 2 * d.choose("hs.n", (maxn - 6) / 2 + 1);
                Gen::HiddenShift { qubits, clifford_depth: if d.coin("hs.deep", 1, 10) { 100 + d.choose("hs.dd", 200) } else { d.choose("hs.d", 41) }, n_ccz: d.choose("hs.c", 8) }
            }
            "pauli_gadget" => {
                // registers wider than a machine word in one run of eight
                let qubits = if d.coin("pg.wide", 1, 8) { 60 + d.choose("pg.qw", 80) } else { 1 + d.choose("pg.q", 8) };
                let maxw = 1 + d.choose("pg.max", qubits);
                // the weight range reaches the whole register in a quarter of the runs
                let maxw = if d.coin("pg.full", 1, 4) { qubits } else { maxw };
                let minw = if d.coin("pg.fullmin", 1, 8) { maxw } else { 1 + d.choose("pg.min", maxw) };
                // a few large instances (qubits x depth beyond 2^15): size thresholds inside a generator
                let depth = if qubits >= 60 && d.coin("pg.large", 1, 5) {
                    300 + d.choose("pg.ld", 500)
                } else if d.coin("pg.deep", 1, 12) {
                    50 + d.choose("pg.dd", 100)
                } else {
                    d.choose("pg.d", 13)
                };
                Gen::PauliGadget { qubits, depth, min_weight: minw, max_weight: maxw, phase_denom: 1 + d.choose("pg.den", 16) }
            }
            // registers wider than a machine word in one run of six (structural norm oracle there)
            "stab_state" => Gen::StabState { qubits: if d.coin("ss.wide", 1, 6) { 20 + d.choose("ss.qw", 121) } else { 1 + d.choose("ss.q", 8) }, hash_backend: d.coin("ss.hb", 1, 2) },
            _ => Gen::SurfaceCode { distance: 2 + d.choose("sc.d", 3), rounds: d.choose("sc.r", 4) },
        };
        let mut sc = Sc { gen, seed, via_child: d.coin("child", 1, 12), seed_pos: d.choose("seedpos", 3) as u8, batch: 1 + d.choose("batch", 3) as u8, history: d.choose("history", 3) as u8 };
        if sub == "long" {
            // one object per build, no child process, no second round: memory and time
            sc.via_child = false;
            sc.batch = 1;
            sc.history = 0;
        }
        sc
    }

    fn execute(&self, sc: &Sc, _sub: &str, exec: Decider, env: &Env) -> RunOut {
        let mut out = RunOut { engine: "native", ..Default::default() };
        out.scenario_digest = hash_str(&serde_json::to_string(sc).unwrap());
        let name = gen_name(&sc.gen);
        if let Gen::Random { p, preset: 0, .. } = &sc.gen {
            if p.iter().any(|&x| x == 0) {
                out.probe("random.zero_probability_kind");
            }
            if p.iter().sum::<u32>() < 1000 {
                out.probe("random.sum_below_one");
            }
        }
        // (i) twice in this run, seams installed
        let core = Core::new(exec, 1);
        let g1 = sc.gen.clone();
        let seed = sc.seed;
        let sp = sc.seed_pos;
        let bt = sc.batch;
        let (res, core) = with_sim(core, move || (build(&g1, seed, sp, bt), build(&g1, seed, (sp + 1) % 3, bt)));
        let mut dec = core.dec;
        out.steps += 2;
        out.count("ambient_draws_during_seeded_build", core.stats.rng_draws);
        out.count("randomised_maps_during_seeded_build", core.stats.hash_keys);
        let (a, b) = match res {
            Caught::Ok(x) => x,
            Caught::Panic(m) => {
                out.violations.push(
                    Violation::new("panic", format!("{:?} seed {}: {m}", sc.gen, sc.seed))
                        .with("generator", name)
                        .with("one_qubit_random_circuit", matches!(sc.gen, Gen::Random { qubits: 1, .. }).to_string())
                        .with("msg", super::c18::norm_msg(&m)),
                );
                out.exec_trace = dec.values();
                return out;
            }
            Caught::Budget => {
                out.inconclusive = true;
                return out;
            }
        };
        // NOTE: the object's digest is deliberately NOT folded into the event digest: whether
        // it is the same in another execution is the property under test, not the harness's
        // own determinism (which the framework's self-check is about).
        // Touching the ambient generator or creating a randomised map during a seeded build is
        // not by itself a violation (the value might be unused, the map never iterated): under
        // the simulation the two builds are handed *different* draws and hash keys, so any use
        // that reaches the object makes `a != b` below. The counts are kept as probes.
        if core.stats.rng_draws > 0 {
            out.probe("seeded_build_touched_ambient_rng");
        }
        if core.stats.hash_keys > 0 {
            out.probe("seeded_build_created_randomised_map");
        }
        if a != b {
            out.violations.push(
                Violation::new("not_reproducible", format!("{:?} seed {}: two builders with the same seed and parameters (.seed() called at different positions among the setters), each building a batch of {} objects, disagree", sc.gen, sc.seed, sc.batch.max(1)))
                    .with("generator", name)
                    .with("where", "same_thread"),
            );
        }
        // (i') a builder with a past: seeded again after a first batch, or used before under another seed
        if sc.history > 0 && !matches!(sc.gen, Gen::SurfaceCode { .. }) {
            let g3 = sc.gen.clone();
            let hist = sc.history;
            let core = Core::new(dec, 1);
            let (res, core) = with_sim(core, move || build_hist(&g3, seed, sp, bt, hist));
            dec = core.dec;
            out.steps += 1;
            match res {
                Caught::Ok(c) => {
                    out.probe(if hist == 1 { "builder_reseeded_compared" } else { "used_builder_compared" });
                    if c != a {
                        out.violations.push(
                            Violation::new(
                                "not_reproducible",
                                format!(
                                    "{:?} seed {}: {} gives other objects than a fresh builder with the same seed and parameters",
                                    sc.gen,
                                    sc.seed,
                                    if hist == 1 { "seeding the same builder again after its first batch and building once more" } else { "a builder that has built under another seed before" }
                                ),
                            )
                            .with("generator", name)
                            .with("where", if hist == 1 { "reseeded_builder" } else { "used_builder" }),
                        );
                    }
                }
                Caught::Panic(m) => out.violations.push(
                    Violation::new("panic", format!("{:?} seed {} (builder history {hist}): {m}", sc.gen, sc.seed))
                        .with("generator", name)
                        .with("one_qubit_random_circuit", matches!(sc.gen, Gen::Random { qubits: 1, .. }).to_string())
                        .with("msg", super::c18::norm_msg(&m)),
                ),
                Caught::Budget => {}
            }
        }
        // (i'') on a worker thread of a rayon pool (the simulated pool's workers are the threads of
        // a real rayon pool of that size, and the build runs as a task of worker 0): a generator
        // that takes another route when it finds itself inside a pool, or that splits its work by
        // current_num_threads(), must still return the object of a plain thread
        if sc.seed % 3 == 0 && !matches!(sc.gen, Gen::SurfaceCode { .. }) {
            let g4 = sc.gen.clone();
            let w = 2 + (sc.seed / 3 % 3) as usize;
            let mut core = Core::new(dec, w);
            core.pool_workers = w;
            let (res, core) = with_sim(core, move || build(&g4, seed, sp, bt));
            dec = core.dec;
            out.steps += 1;
            match res {
                Caught::Ok(c) => {
                    out.probe("pool_worker_compared");
                    if c != a {
                        out.violations.push(
                            Violation::new("not_reproducible", format!("{:?} seed {}: build on a worker thread of a {w}-thread rayon pool differs from the build on a plain thread", sc.gen, sc.seed))
                                .with("generator", name)
                                .with("where", "rayon_worker"),
                        );
                    }
                }
                Caught::Panic(m) => out.violations.push(
                    Violation::new("panic", format!("{:?} seed {} (on a pool worker): {m}", sc.gen, sc.seed))
                        .with("generator", name)
                        .with("one_qubit_random_circuit", matches!(sc.gen, Gen::Random { qubits: 1, .. }).to_string())
                        .with("msg", super::c18::norm_msg(&m)),
                ),
                Caught::Budget => {}
            }
        }
        // (ii) another OS thread
        {
            let g2 = sc.gen.clone();
            let h = std::thread::spawn(move || std::panic::catch_unwind(|| build(&g2, seed, sp, bt)).ok());
            match h.join() {
                Ok(Some(c)) => {
                    out.probe("other_thread_compared");
                    if c != a {
                        out.violations.push(
                            Violation::new("not_reproducible", format!("{:?} seed {}: build on another thread differs", sc.gen, sc.seed))
                                .with("generator", name)
                                .with("where", "other_thread"),
                        );
                    }
                }
                _ => {
                    out.violations.push(
                        Violation::new("not_reproducible", format!("{:?} seed {}: build on another thread panicked", sc.gen, sc.seed))
                            .with("generator", name)
                            .with("where", "other_thread"),
                    );
                }
            }
        }
        // (iii) child process
        if sc.via_child {
            out.engine = "child_process";
            let mut o = std::process::Command::new(&env.self_exe);
            let o = o
                .arg("--child-gen")
                .arg(serde_json::to_string(sc).unwrap())
                .stdin(std::process::Stdio::null());
            let o = crate::cli::output_locked(o).expect("spawn child");
            let txt = String::from_utf8_lossy(&o.stdout).to_string();
            out.probe("child_process_compared");
            let want = format!("OBJ {:016x}", obj_digest(&a));
            if txt.trim() != want {
                out.violations.push(
                    Violation::new("not_reproducible", format!("{:?} seed {}: build in a child process differs ({} vs {})", sc.gen, sc.seed, txt.trim(), want))
                        .with("generator", name)
                        .with("where", "child_process"),
                );
            }
        }
        // the stabiliser-state builder is generic over the graph backend: the same seed must give
        // the same diagram in the vector and in the hash backend
        if let Gen::StabState { qubits, hash_backend } = &sc.gen {
            let other = Gen::StabState { qubits: *qubits, hash_backend: !*hash_backend };
            if let Ok(o) = std::panic::catch_unwind(move || build(&other, seed, sp, bt)) {
                out.probe("other_backend_compared");
                if o != a {
                    out.violations.push(
                        Violation::new(
                            "not_reproducible",
                            format!("{:?} seed {}: the vector and the hash backend give different diagrams for the same seed", sc.gen, sc.seed),
                        )
                        .with("generator", name)
                        .with("where", "other_backend"),
                    );
                }
            }
        }
        // promises, on every object of the batch
        for o in &a {
            self.judge(sc, o, &mut out);
        }
        if a.len() >= 2 {
            out.probe("batch_of_builds_from_one_builder");
            if a[0] != a[1] {
                out.probe("batch_objects_differ_from_each_other");
            }
        }
        // non-triviality: neighbouring seeds differ
        let big = obj_size(&a) >= match sc.gen {
            Gen::StabState { .. } => 3,
            _ => 5,
        };
        if big && !matches!(sc.gen, Gen::SurfaceCode { .. }) {
            let g3 = sc.gen.clone();
            let (s1, s2) = (sc.seed.wrapping_add(1), sc.seed.wrapping_sub(1));
            if let Ok((x, y)) = std::panic::catch_unwind(move || (build(&g3, s1, sp, 1), build(&g3, s2, sp, 1))) {
                out.nontrivial = x[0] != a[0] && y[0] != a[0];
            }
        }
        if matches!(sc.gen, Gen::SurfaceCode { .. }) {
            out.nontrivial = true;
        }
        out.ev(dec.digest);
        out.exec_trace = dec.values();
        out.sample = Some(json!({"scenario": sc, "object_size": obj_size(&a), "object_digest": format!("{:016x}", obj_digest(&a))}));
        out
    }

    fn shrink(&self, sc: &Sc) -> Vec<Sc> {
        let mut c = vec![];
        let with = |g: Gen| Sc { gen: g, ..sc.clone() };
        match &sc.gen {
            Gen::Random { qubits, depth, p, preset, tweaks } => {
                if !tweaks.is_empty() {
                    c.push(with(Gen::Random { qubits: *qubits, depth: *depth, p: *p, preset: *preset, tweaks: tweaks[..tweaks.len() - 1].to_vec() }));
                }
                if *depth > 0 {
                    c.push(with(Gen::Random { qubits: *qubits, depth: depth / 2, p: *p, preset: *preset, tweaks: tweaks.clone() }));
                    c.push(with(Gen::Random { qubits: *qubits, depth: depth - 1, p: *p, preset: *preset, tweaks: tweaks.clone() }));
                }
                if *qubits > 1 {
                    c.push(with(Gen::Random { qubits: qubits - 1, depth: *depth, p: *p, preset: *preset, tweaks: tweaks.clone() }));
                }
            }
            Gen::HiddenShift { qubits, clifford_depth, n_ccz } => {
                if *clifford_depth > 0 {
                    c.push(with(Gen::HiddenShift { qubits: *qubits, clifford_depth: clifford_depth / 2, n_ccz: *n_ccz }));
                }
                if *n_ccz > 0 {
                    c.push(with(Gen::HiddenShift { qubits: *qubits, clifford_depth: *clifford_depth, n_ccz: n_ccz - 1 }));
                }
                if *qubits > 6 {
                    c.push(with(Gen::HiddenShift { qubits: qubits - 2, clifford_depth: *clifford_depth, n_ccz: *n_ccz }));
                }
            }
            Gen::PauliGadget { qubits, depth, min_weight, max_weight, phase_denom } => {
                if *depth > 1 {
                    c.push(with(Gen::PauliGadget { qubits: *qubits, depth: depth / 2, min_weight: *min_weight, max_weight: *max_weight, phase_denom: *phase_denom }));
                    c.push(with(Gen::PauliGadget { qubits: *qubits, depth: depth - 1, min_weight: *min_weight, max_weight: *max_weight, phase_denom: *phase_denom }));
                }
            }
            Gen::StabState { qubits, hash_backend } => {
                if *qubits > 1 {
                    c.push(with(Gen::StabState { qubits: qubits - 1, hash_backend: *hash_backend }));
                }
            }
            Gen::SurfaceCode { .. } => {}
        }
        if sc.seed > 16 {
            c.push(Sc { seed: sc.seed % 16, ..sc.clone() });
        }
        c
    }
}
