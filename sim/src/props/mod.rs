pub mod c18;
