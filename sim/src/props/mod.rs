pub mod c03;
pub mod c05;
pub mod c06;
pub mod c13;
pub mod c18;
pub mod c19;
