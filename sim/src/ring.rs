//! Oracle R: the ring Z[ω]/2^k, ω = e^{iπ/4}, ω⁴ = −1, √2 = ω − ω³, with
//! arbitrary-precision coefficients.  Shares nothing with quizx's `Scalar4`.

use num::bigint::BigInt;
use num::{Integer, One, Signed, ToPrimitive, Zero};
use quizx::verif::RawDyadic;

/// value = (c0 + c1 ω + c2 ω² + c3 ω³) / 2^e, normalised so that either all
/// c are zero and e = 0, or at least one c is odd.  `e` may be negative.
#[derive(Clone, Debug, PartialEq, Eq)]
pub struct Zw {
    pub c: [BigInt; 4],
    pub e: i64,
}

impl Zw {
    pub fn zero() -> Zw {
        Zw {
            c: [BigInt::zero(), BigInt::zero(), BigInt::zero(), BigInt::zero()],
            e: 0,
        }
    }
    pub fn one() -> Zw {
        Zw::from_ints([1, 0, 0, 0], 0)
    }
    pub fn from_ints(c: [i64; 4], e: i64) -> Zw {
        let mut z = Zw {
            c: [c[0].into(), c[1].into(), c[2].into(), c[3].into()],
            e,
        };
        z.normalise();
        z
    }
    pub fn from_big(c: [BigInt; 4], e: i64) -> Zw {
        let mut z = Zw { c, e };
        z.normalise();
        z
    }
    /// ω^k for any integer k
    pub fn omega_pow(k: i64) -> Zw {
        let k = k.rem_euclid(8) as usize;
        let mut c = [0i64; 4];
        if k < 4 {
            c[k] = 1;
        } else {
            c[k - 4] = -1;
        }
        Zw::from_ints(c, 0)
    }
    /// √2^p for any integer p
    pub fn sqrt2_pow(p: i64) -> Zw {
        if p.rem_euclid(2) == 0 {
            // 2^(p/2)
            Zw::from_ints([1, 0, 0, 0], -(p / 2))
        } else {
            // √2 · 2^((p-1)/2)
            let h = (p - 1).div_euclid(2);
            Zw::from_ints([0, 1, 0, -1], -h)
        }
    }
    pub fn is_zero(&self) -> bool {
        self.c.iter().all(|x| x.is_zero())
    }
    fn normalise(&mut self) {
        if self.is_zero() {
            self.e = 0;
            return;
        }
        loop {
            if self.c.iter().all(|x| x.is_even()) {
                for x in self.c.iter_mut() {
                    *x = &*x >> 1;
                }
                self.e -= 1;
            } else {
                break;
            }
        }
    }
    pub fn add(&self, o: &Zw) -> Zw {
        if self.is_zero() {
            return o.clone();
        }
        if o.is_zero() {
            return self.clone();
        }
        let e = self.e.max(o.e);
        let sa = (e - self.e) as usize;
        let sb = (e - o.e) as usize;
        let c = [
            (&self.c[0] << sa) + (&o.c[0] << sb),
            (&self.c[1] << sa) + (&o.c[1] << sb),
            (&self.c[2] << sa) + (&o.c[2] << sb),
            (&self.c[3] << sa) + (&o.c[3] << sb),
        ];
        Zw::from_big(c, e)
    }
    pub fn neg(&self) -> Zw {
        Zw {
            c: [-&self.c[0], -&self.c[1], -&self.c[2], -&self.c[3]],
            e: self.e,
        }
    }
    pub fn sub(&self, o: &Zw) -> Zw {
        self.add(&o.neg())
    }
    pub fn mul(&self, o: &Zw) -> Zw {
        let mut c = [BigInt::zero(), BigInt::zero(), BigInt::zero(), BigInt::zero()];
        for i in 0..4 {
            if self.c[i].is_zero() {
                continue;
            }
            for j in 0..4 {
                let p = &self.c[i] * &o.c[j];
                let k = i + j;
                if k < 4 {
                    c[k] += p;
                } else {
                    c[k - 4] -= p;
                }
            }
        }
        Zw::from_big(c, self.e + o.e)
    }
    pub fn conj(&self) -> Zw {
        Zw {
            c: [
                self.c[0].clone(),
                -&self.c[3],
                -&self.c[2],
                -&self.c[1],
            ],
            e: self.e,
        }
    }
    pub fn mul_omega_pow(&self, k: i64) -> Zw {
        self.mul(&Zw::omega_pow(k))
    }
    pub fn mul_sqrt2_pow(&self, p: i64) -> Zw {
        self.mul(&Zw::sqrt2_pow(p))
    }
    pub fn norm_sqr(&self) -> Zw {
        self.mul(&self.conj())
    }

    fn big_to_f64(x: &BigInt, e: i64) -> f64 {
        // x * 2^-e without overflow for large magnitudes
        if x.is_zero() {
            return 0.0;
        }
        let bits = x.bits() as i64;
        let (m, sh) = if bits > 900 {
            let sh = bits - 900;
            ((x >> (sh as usize)).to_f64().unwrap(), sh)
        } else {
            (x.to_f64().unwrap(), 0)
        };
        let p = sh - e;
        // split the power to avoid intermediate overflow/underflow
        let half = p / 2;
        m * 2f64.powi(half as i32) * 2f64.powi((p - half) as i32)
    }

    pub fn to_c64(&self) -> (f64, f64) {
        let f: Vec<f64> = self.c.iter().map(|x| Zw::big_to_f64(x, self.e)).collect();
        let r = std::f64::consts::FRAC_1_SQRT_2;
        (f[0] + (f[1] - f[3]) * r, f[2] + (f[1] + f[3]) * r)
    }

    pub fn from_raw(raw: &[RawDyadic; 4]) -> (Zw, bool) {
        let approx = raw.iter().any(|r| r.approx);
        let nz: Vec<&RawDyadic> = raw.iter().filter(|r| r.val != 0).collect();
        if nz.is_empty() {
            return (Zw::zero(), approx);
        }
        let minexp = nz.iter().map(|r| r.exp as i64).min().unwrap();
        let mut c = [BigInt::zero(), BigInt::zero(), BigInt::zero(), BigInt::zero()];
        for (i, r) in raw.iter().enumerate() {
            if r.val == 0 {
                continue;
            }
            let mut v = BigInt::from(r.val) << ((r.exp as i64 - minexp) as usize);
            if r.sign {
                v = -v;
            }
            c[i] = v;
        }
        (Zw::from_big(c, -minexp), approx)
    }

    pub fn from_scalar(s: &quizx::scalar::Scalar4) -> (Zw, bool) {
        Zw::from_raw(&quizx::verif::scalar_raw(s))
    }

    /// Short printable form.
    pub fn show(&self) -> String {
        if self.is_zero() {
            return "0".into();
        }
        let names = ["", "w", "w2", "w3"];
        let mut parts = vec![];
        for i in 0..4 {
            if !self.c[i].is_zero() {
                parts.push(format!("{}{}", self.c[i], names[i]));
            }
        }
        format!("({})/2^{}", parts.join(" + "), self.e)
    }

    /// Real part ≥ 0 test etc. are done in floats; this is the exact real-ness test.
    pub fn is_real(&self) -> bool {
        self.c[2].is_zero() && (&self.c[1] + &self.c[3]).is_zero()
    }
}

/// self-test of the ring laws (exit 2 on failure, not a verdict)
pub fn self_test() -> Result<(), String> {
    let s2 = Zw::sqrt2_pow(1);
    if s2.mul(&s2) != Zw::from_ints([2, 0, 0, 0], 0) {
        return Err("sqrt2^2 != 2".into());
    }
    if Zw::sqrt2_pow(-1).mul(&s2) != Zw::one() {
        return Err("sqrt2^-1 * sqrt2 != 1".into());
    }
    if Zw::sqrt2_pow(-3).mul(&Zw::sqrt2_pow(3)) != Zw::one() {
        return Err("sqrt2^-3 * sqrt2^3 != 1".into());
    }
    for k in -9..9 {
        let w = Zw::omega_pow(k);
        if w.mul(&w.conj()) != Zw::one() {
            return Err(format!("|w^{k}|^2 != 1"));
        }
        if w.mul(&Zw::omega_pow(8 - k)) != Zw::one() {
            return Err(format!("w^{k} w^(8-{k}) != 1"));
        }
        let (re, im) = w.to_c64();
        let a = std::f64::consts::PI * (k as f64) / 4.0;
        if (re - a.cos()).abs() > 1e-12 || (im - a.sin()).abs() > 1e-12 {
            return Err(format!("w^{k} float value"));
        }
    }
    if Zw::omega_pow(4) != Zw::one().neg() {
        return Err("w^4 != -1".into());
    }
    let a = Zw::from_ints([3, -1, 4, 1], 5);
    let b = Zw::from_ints([-5, 9, 2, -6], -2);
    let c = Zw::from_ints([7, 0, -3, 2], 1);
    if a.add(&b).mul(&c) != a.mul(&c).add(&b.mul(&c)) {
        return Err("distributivity".into());
    }
    if a.mul(&b) != b.mul(&a) {
        return Err("commutativity".into());
    }
    if a.mul(&b).conj() != a.conj().mul(&b.conj()) {
        return Err("conj multiplicative".into());
    }
    if !a.sub(&a).is_zero() {
        return Err("a-a".into());
    }
    if !a.norm_sqr().is_real() {
        return Err("norm not real".into());
    }
    // round trip through quizx's raw parts on simple values
    let s = quizx::scalar::Scalar4::new([1, 0, -1, 0], -3);
    let (z, ap) = Zw::from_scalar(&s);
    if ap || z != Zw::from_ints([1, 0, -1, 0], 3) {
        return Err(format!("from_scalar: {}", z.show()));
    }
    let _ = BigInt::one().abs();
    Ok(())
}
