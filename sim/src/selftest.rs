//! Harness self-tests that are not verdicts: a failure is exit 2.

use crate::decider::Decider;
use crate::gatesim::{self, HCirc, HGate, GK};
use crate::gen;
use crate::ring::Zw;
use crate::zxeval::Val;

/// Oracle A against oracle B on circuits the harness translates to ZX itself.
pub fn evaluator_vs_gate_simulator() -> Result<(), String> {
    let mut d = Decider::seeded(0xA5A5_0001);
    d.record_sites = false;
    for round in 0..60 {
        let n = 1 + d.choose("n", 3);
        let ng = d.choose("ng", 9);
        let mut c = HCirc::new(n);
        for _ in 0..ng {
            let q = d.choose("q", n);
            let k = match d.choose("k", 10) {
                0 | 1 => GK::H,
                2 => GK::T,
                3 => GK::S,
                4 => GK::Rz(d.range("p", 1, 7), 4),
                5 => GK::Rx(d.range("p", 1, 7), 4),
                6 => GK::X,
                7 => GK::Z,
                _ => {
                    if n < 2 {
                        GK::Tdg
                    } else if d.coin("cz", 1, 2) {
                        GK::CZ
                    } else {
                        GK::CX
                    }
                }
            };
            let qs = if k.arity() == 2 {
                let mut b = d.choose("q2", n - 1);
                if b >= q {
                    b += 1;
                }
                vec![q, b]
            } else {
                vec![q]
            };
            let k = match k {
                GK::Rz(p, 4) => {
                    let (a, b) = gen::reduce(p, 4);
                    GK::Rz(a, b)
                }
                GK::Rx(p, 4) => {
                    let (a, b) = gen::reduce(p, 4);
                    GK::Rx(a, b)
                }
                k => k,
            };
            c.gates.push(HGate { k, qs });
        }
        let spec = gen::circuit_to_spec(&c).ok_or("circuit_to_spec")?;
        let t = spec.to_dg().tensor(24).map_err(|e| format!("evaluator: {e:?}"))?;
        let u = gatesim::unitary::<Zw>(&c).ok_or("unitary")?;
        for j in 0..(1usize << n) {
            for i in 0..(1usize << n) {
                let idx = j | (i << n);
                let want = Val::Exact(u[j][i].clone());
                if t[idx] != want {
                    return Err(format!(
                        "oracle A vs B disagree (round {round}) on {:?}: entry out={i} in={j}: {} vs {}",
                        c,
                        t[idx].show(),
                        want.show()
                    ));
                }
            }
        }
    }
    Ok(())
}

const AUDIT_PATTERNS: [&str; 9] = [
    "Mutex", "RwLock", "Atomic", "RefCell", "Cell<", "static mut", "unsafe", "thread_local", "OnceLock",
];

fn audit_scan() -> Vec<String> {
    let mut hits = vec![];
    fn walk(dir: &std::path::Path, hits: &mut Vec<String>) {
        let mut entries: Vec<_> = match std::fs::read_dir(dir) {
            Ok(r) => r.filter_map(|e| e.ok()).map(|e| e.path()).collect(),
            Err(_) => return,
        };
        entries.sort();
        for p in entries {
            if p.is_dir() {
                walk(&p, hits);
            } else if p.extension().map(|e| e == "rs").unwrap_or(false) {
                if p.file_name().map(|f| f == "verif.rs").unwrap_or(false) {
                    continue;
                }
                if let Ok(txt) = std::fs::read_to_string(&p) {
                    for (ln, line) in txt.lines().enumerate() {
                        let t = line.trim_start();
                        if t.starts_with("//") {
                            continue;
                        }
                        for pat in AUDIT_PATTERNS {
                            if line.contains(pat) {
                                hits.push(format!("{}:{}: {}", p.display(), ln + 1, t));
                                break;
                            }
                        }
                    }
                }
            }
        }
    }
    // the checkout the harness was built against (bin/check sets QSIM_REPO for background sweeps)
    let repo = std::env::var("QSIM_REPO").unwrap_or_else(|_| "/repo".to_string());
    walk(&std::path::Path::new(&repo).join("quizx/src"), &mut hits);
    hits
}

/// The whole-task fork-join model is complete only while tasks share no mutable
/// state. This audit is reported in the evidence; a hit is printed as a warning
/// (the schedule model may then be too coarse), it is not a verdict.
pub fn audit_no_shared_mutable_state() -> Result<(), String> {
    let hits = audit_scan();
    if !hits.is_empty() {
        println!(
            "qsim: warning: shared-mutable-state audit found {} site(s) in quizx/src; whole-task schedules may be too coarse there:",
            hits.len()
        );
        for h in hits.iter().take(10) {
            println!("qsim:   {h}");
        }
    }
    Ok(())
}

pub fn audit_report() -> serde_json::Value {
    let hits = audit_scan();
    serde_json::json!({"patterns": AUDIT_PATTERNS, "hits": hits})
}
