//! The simulator installed behind quizx's seams for the duration of a run.

use crate::decider::{mix, Decider};
use quizx::verif::{Point, Sim, Site, Snap};
use std::cell::RefCell;
use std::collections::BTreeMap;
use std::sync::{Arc, Mutex};

/// Callback for the step observers (C05).
pub trait StepObserver: Send {
    fn decomp_step(&mut self, core: &mut CoreStats, depth: i64, g: &Snap, decomp: &str, terms: &[Snap]);
    fn split_step(&mut self, core: &mut CoreStats, depth: i64, g: &Snap, parts: &[Snap]);
}

#[derive(Default, Clone, Debug)]
pub struct CoreStats {
    pub rng_draws: u64,
    pub rng_draws_by_site: BTreeMap<String, u64>,
    pub hash_keys: u64,
    pub regions: u64,
    pub regions_ge2: u64,
    pub tasks: u64,
    pub max_nesting: usize,
    pub max_region_width: usize,
    pub non_identity_orders: u64,
    pub workers_used: std::collections::BTreeSet<usize>,
    pub decomp_steps: u64,
    pub split_steps: u64,
    pub max_depth: i64,
    pub probes: BTreeMap<String, u64>,
    /// violations noticed by observers while the run proceeds: (class, detail)
    pub violations: Vec<(String, String)>,
    /// digest of the fork-join schedule (orders + workers) of this run
    pub schedule_digest: u64,
    pub hash_digest: u64,
    /// Bernoulli records from the sampler
    pub bern: Vec<(Vec<bool>, f64)>,
    /// abort flag: step budget exceeded
    pub budget_exceeded: bool,
    /// voluntary switches between simulated workers inside/between tasks
    pub preemptions: u64,
    /// atomic / lock operations of the code under test that were scheduling points (std_shim)
    pub sync_points: u64,
}

impl CoreStats {
    pub fn probe(&mut self, name: &str) {
        *self.probes.entry(name.to_string()).or_insert(0) += 1;
    }
}

pub struct Core {
    pub dec: Decider,
    /// simulated worker-thread count W for this execution
    pub workers: usize,
    /// if true, fork-join regions run in identity order on worker 0 (the
    /// "sequential-like" schedule); used by shrinking
    pub stats: CoreStats,
    pub nesting: usize,
    pub observer: Option<Box<dyn StepObserver>>,
    pub want_steps: bool,
    /// stop the run (by panicking with BUDGET_MARKER) after this many decomposition steps
    pub step_budget: u64,
    /// stop the run after this many ambient draws
    pub draw_budget: u64,
    /// > 0: run fork-join regions on a simulated pool of this many real worker threads, one
    /// running at a time, with decider-chosen switches at scheduling points (DESIGN §9.8);
    /// 0: the sequentialised whole-task model of §2.3
    pub pool_workers: usize,
    /// probability (in 1/16) of a voluntary switch at a scheduling point inside a task
    pub preempt_16: usize,
    /// per-worker nesting of tasks
    pub nest: Vec<usize>,
}

pub const BUDGET_MARKER: &str = "QSIM_STEP_BUDGET";

impl Core {
    pub fn new(dec: Decider, workers: usize) -> Core {
        Core {
            dec,
            workers: workers.max(1),
            stats: CoreStats::default(),
            nesting: 0,
            observer: None,
            want_steps: false,
            step_budget: u64::MAX,
            draw_budget: u64::MAX,
            pool_workers: 0,
            preempt_16: 4,
            nest: vec![],
        }
    }
}

/// Handle installed into quizx; shares the core with the harness.
pub struct SimHandle(pub Arc<Mutex<Core>>);

impl SimHandle {
    fn core(&self) -> std::sync::MutexGuard<'_, Core> {
        self.0.lock().unwrap_or_else(|e| e.into_inner())
    }
}

impl Sim for SimHandle {
    fn draw64(&mut self, site: Site) -> u64 {
        let mut c = self.core();
        c.stats.rng_draws += 1;
        if c.stats.rng_draws > c.draw_budget {
            c.stats.budget_exceeded = true;
            drop(c);
            panic!("{}", BUDGET_MARKER);
        }
        let key = format!("{}:{}", short(site.file), site.line);
        *c.stats.rng_draws_by_site.entry(key).or_insert(0) += 1;
        c.dec.draw_rng("rng")
    }

    fn hash_key(&mut self) -> u64 {
        let mut c = self.core();
        c.stats.hash_keys += 1;
        let k = c.dec.draw64("hash");
        c.stats.hash_digest = mix(c.stats.hash_digest, k);
        k
    }

    fn par_region(&mut self, _site: Site, n: usize) -> (Vec<usize>, Vec<usize>) {
        let mut c = self.core();
        c.stats.regions += 1;
        if n >= 2 {
            c.stats.regions_ge2 += 1;
        }
        c.stats.max_region_width = c.stats.max_region_width.max(n);
        let order = c.dec.permutation("par.order", n);
        let w = c.workers;
        let workers: Vec<usize> = (0..n).map(|_| c.dec.choose("par.worker", w)).collect();
        if order.iter().enumerate().any(|(i, &o)| i != o) {
            c.stats.non_identity_orders += 1;
        }
        let mut d = c.stats.schedule_digest;
        d = mix(d, n as u64);
        for (&o, &wk) in order.iter().zip(workers.iter()) {
            d = mix(d, ((o as u64) << 8) | wk as u64);
        }
        c.stats.schedule_digest = d;
        for &wk in &workers {
            c.stats.workers_used.insert(wk);
        }
        (order, workers)
    }

    fn task_begin(&mut self, _site: Site, _index: usize, worker: usize) {
        let mut c = self.core();
        c.nesting += 1;
        c.stats.tasks += 1;
        if c.nest.len() <= worker {
            c.nest.resize(worker + 1, 0);
        }
        c.nest[worker] += 1;
        let n = if c.pool_workers > 0 { c.nest[worker] } else { c.nesting };
        c.stats.max_nesting = c.stats.max_nesting.max(n);
    }

    fn task_end(&mut self, _site: Site, _index: usize) {
        let mut c = self.core();
        c.nesting = c.nesting.saturating_sub(1);
    }

    fn region_end(&mut self, _site: Site) {}

    fn choose(&mut self, site: Site, n: usize) -> usize {
        let mut c = self.core();
        let v = c.dec.choose("par.choose", n);
        if site.file.starts_with("pool.") {
            c.stats.schedule_digest = mix(c.stats.schedule_digest, ((n as u64) << 16) | v as u64);
        }
        v
    }

    fn wants_steps(&self) -> bool {
        self.core().want_steps
    }

    fn decomp_step(&mut self, depth: i64, g: &Snap, decomp: &str, terms: &[Snap]) {
        let mut c = self.core();
        c.stats.decomp_steps += 1;
        c.stats.max_depth = c.stats.max_depth.max(depth);
        if c.stats.decomp_steps > c.step_budget {
            c.stats.budget_exceeded = true;
            drop(c);
            panic!("{}", BUDGET_MARKER);
        }
        let c = &mut *c;
        if let Some(obs) = c.observer.as_mut() {
            obs.decomp_step(&mut c.stats, depth, g, decomp, terms);
        }
    }

    fn split_step(&mut self, depth: i64, g: &Snap, parts: &[Snap]) {
        let mut c = self.core();
        c.stats.split_steps += 1;
        let c = &mut *c;
        if let Some(obs) = c.observer.as_mut() {
            obs.split_step(&mut c.stats, depth, g, parts);
        }
    }

    fn preempt(&mut self, point: Point, others: usize) -> Option<usize> {
        let mut c = self.core();
        let p16 = match point {
            // between tasks switches are cheap and the interesting ones; inside a task rarer
            Point::TaskStart | Point::TaskEnd => (c.preempt_16 * 2).min(16),
            Point::Seam => c.preempt_16,
            // an atomic or lock operation reached through quizx::verif::std_shim
            Point::Sync => {
                c.stats.sync_points += 1;
                c.preempt_16
            }
        };
        if p16 == 0 || others == 0 {
            return None;
        }
        if c.dec.choose("pool.preempt", 16) < p16 {
            c.stats.preemptions += 1;
            let k = c.dec.choose("pool.to", others);
            c.stats.schedule_digest = mix(c.stats.schedule_digest, 0x9e00 + k as u64);
            Some(k)
        } else {
            None
        }
    }

    fn bernoulli(&mut self, prefix: &[bool], p: f64) {
        self.core().stats.bern.push((prefix.to_vec(), p));
    }
}

fn short(file: &str) -> &str {
    match file.rfind("src/") {
        Some(p) => &file[p + 4..],
        None => file,
    }
}

thread_local! {
    static LAST_PANIC: RefCell<Option<String>> = const { RefCell::new(None) };
    static QUIET: std::cell::Cell<u32> = const { std::cell::Cell::new(0) };
    static IS_HARNESS_THREAD: std::cell::Cell<bool> = const { std::cell::Cell::new(false) };
}

/// Mark the calling thread as one of the harness's own (its panics outside quiet scopes are
/// harness errors and are printed).
pub fn mark_harness_thread() {
    IS_HARNESS_THREAD.with(|h| h.set(true));
}

/// number of threads currently inside a quiet scope (code under test may panic on threads the
/// harness does not own, e.g. rayon's global pool: those panics are recorded, not printed)
static ACTIVE_SCOPES: std::sync::atomic::AtomicUsize = std::sync::atomic::AtomicUsize::new(0);
/// message -> location of recent panics on any thread
static PANIC_LOCS: Mutex<BTreeMap<String, String>> = Mutex::new(BTreeMap::new());

struct QuietGuard;
impl QuietGuard {
    fn new() -> Self {
        QUIET.with(|q| q.set(q.get() + 1));
        ACTIVE_SCOPES.fetch_add(1, std::sync::atomic::Ordering::SeqCst);
        QuietGuard
    }
}
impl Drop for QuietGuard {
    fn drop(&mut self) {
        QUIET.with(|q| q.set(q.get().saturating_sub(1)));
        ACTIVE_SCOPES.fetch_sub(1, std::sync::atomic::Ordering::SeqCst);
    }
}

fn lookup_panic_loc(msg: &str) -> Option<String> {
    PANIC_LOCS.lock().unwrap_or_else(|e| e.into_inner()).get(msg).cloned()
}

/// Install a process-wide quiet panic hook that records the message per thread.
pub fn install_panic_hook() {
    std::panic::set_hook(Box::new(|info| {
        let msg = if let Some(s) = info.payload().downcast_ref::<&str>() {
            s.to_string()
        } else if let Some(s) = info.payload().downcast_ref::<String>() {
            s.clone()
        } else {
            "<non-string panic>".to_string()
        };
        let loc = info
            .location()
            .map(|l| format!("{}:{}", short(l.file()), l.line()))
            .unwrap_or_default();
        {
            let mut m = PANIC_LOCS.lock().unwrap_or_else(|e| e.into_inner());
            if m.len() > 512 {
                m.clear();
            }
            m.insert(msg.clone(), loc.clone());
        }
        // a simulated worker thread ("qsim-w<pool>-<i>"): quiet, recorded under its pool id
        if let Some(name) = std::thread::current().name() {
            if let Some(rest) = name.strip_prefix("qsim-w") {
                if let Some(id) = rest.split('-').next().and_then(|x| x.parse::<u64>().ok()) {
                    WORKER_PANICS
                        .lock()
                        .unwrap_or_else(|e| e.into_inner())
                        .entry(id)
                        .or_insert_with(|| format!("{msg} @ {loc}"));
                    return;
                }
            }
        }
        let foreign_thread_during_run = QUIET.with(|q| q.get()) == 0
            && ACTIVE_SCOPES.load(std::sync::atomic::Ordering::SeqCst) > 0
            && std::thread::current().name().map(|n| !n.starts_with("qsim-h")).unwrap_or(true)
            && !IS_HARNESS_THREAD.with(|h| h.get());
        if QUIET.with(|q| q.get()) == 0 && !foreign_thread_during_run {
            eprintln!("qsim: harness panic: {msg} @ {loc}");
        }
        LAST_PANIC.with(|p| *p.borrow_mut() = Some(format!("{msg} @ {loc}")));
    }));
}

pub fn take_panic() -> Option<String> {
    LAST_PANIC.with(|p| p.borrow_mut().take())
}

#[derive(Debug, Clone)]
pub enum Caught<T> {
    Ok(T),
    /// the code under test panicked with this message
    Panic(String),
    /// the run exceeded its step/draw budget (inconclusive, not a verdict)
    Budget,
}

/// Run `f` with a simulator core installed behind the seams; returns the result
/// (or the panic) and the core.
pub fn with_sim<T: Send>(core: Core, f: impl FnOnce() -> T + Send) -> (Caught<T>, Core) {
    let pool_workers = core.pool_workers;
    let mut arc = Arc::new(Mutex::new(core));
    quizx::verif::install(Box::new(SimHandle(arc.clone())));
    let pool_id = if pool_workers > 0 { quizx::verif::pool::start(pool_workers) } else { 0 };
    let _ = take_panic();
    let r = {
        let _q = QuietGuard::new();
        // with a pool, the code under test runs as a task of worker 0 (like ThreadPool::install)
        std::panic::catch_unwind(std::panic::AssertUnwindSafe(|| quizx::verif::pool::run_on_pool(f)))
    };
    // stops the pool (every simulated worker leaves its loop) and drops the installed handle
    let _ = quizx::verif::uninstall();
    // the pool's broadcast closure (which holds a handle) is released by rayon a moment after the
    // last worker has left it
    let t0 = std::time::Instant::now();
    let core = loop {
        match Arc::try_unwrap(arc) {
            Ok(m) => break m.into_inner().unwrap_or_else(|e| e.into_inner()),
            Err(a) => {
                arc = a;
                if t0.elapsed().as_secs() > 20 {
                    panic!("simulator core still shared 20 s after the run");
                }
                std::thread::yield_now();
            }
        }
    };
    let out = match r {
        Ok(v) => Caught::Ok(v),
        Err(payload) => {
            // a panic on a simulated worker is re-raised on this thread without going
            // through the panic hook again: its message was recorded under the pool id
            let msg = take_panic()
                .or_else(|| take_worker_panic(pool_id))
                .or_else(|| payload.downcast_ref::<String>().cloned().map(with_loc))
                .or_else(|| payload.downcast_ref::<&str>().map(|s| with_loc(s.to_string())))
                .unwrap_or_else(|| "<unknown panic>".into());
            if msg.contains(BUDGET_MARKER) || msg.contains(crate::decider::DRAW_LIMIT_MARKER) {
                Caught::Budget
            } else {
                Caught::Panic(msg)
            }
        }
    };
    let _ = take_worker_panic(pool_id);
    (out, core)
}

fn with_loc(msg: String) -> String {
    match lookup_panic_loc(&msg) {
        Some(loc) => format!("{msg} @ {loc}"),
        None => format!("{msg} @ "),
    }
}

static WORKER_PANICS: Mutex<BTreeMap<u64, String>> = Mutex::new(BTreeMap::new());

fn take_worker_panic(pool_id: u64) -> Option<String> {
    if pool_id == 0 {
        return None;
    }
    WORKER_PANICS.lock().unwrap_or_else(|e| e.into_inner()).remove(&pool_id)
}

/// Run `f` without a simulator (but still catching panics quietly).
pub fn catch<T>(f: impl FnOnce() -> T) -> Caught<T> {
    let _ = take_panic();
    let r = {
        let _q = QuietGuard::new();
        std::panic::catch_unwind(std::panic::AssertUnwindSafe(f))
    };
    match r {
        Ok(v) => Caught::Ok(v),
        Err(payload) => {
            let msg = take_panic()
                .or_else(|| payload.downcast_ref::<String>().cloned().map(with_loc))
                .or_else(|| payload.downcast_ref::<&str>().map(|s| with_loc(s.to_string())))
                .unwrap_or_else(|| "<unknown panic>".into());
            if msg.contains(BUDGET_MARKER) || msg.contains(crate::decider::DRAW_LIMIT_MARKER) {
                Caught::Budget
            } else {
                Caught::Panic(msg)
            }
        }
    }
}
