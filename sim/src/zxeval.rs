//! Oracle A: exact evaluator of ZX-diagrams by explicit summation.
//!
//! value(assignment) = scalar · (1/√2)^{#H} ·
//!   Σ_{x ∈ {0,1}^spiders} Π_v e^{iπ p_v x_v} · Π_{plain uv} [x_u = x_v] · Π_{H uv} (−1)^{x_u x_v}
//! with boundaries contributing fixed bits.  X spiders are colour-changed
//! (incident edge types toggled, no scalar).  Plain-edge classes are contracted
//! first, so the sum runs over 2^{free classes}.  Exact in Z[ω]/2^k when every
//! phase is a multiple of π/4 and the diagram's scalar is exact; complex f64
//! with exact integer phase bookkeeping otherwise.
//!
//! Shares no code and no algorithm with quizx's `tensor.rs`.

use crate::ring::Zw;
use num::bigint::BigInt;
use quizx::graph::{EType, VType};
use quizx::verif::Snap;

#[derive(Clone, Copy, Debug, PartialEq, Eq, Hash, PartialOrd, Ord)]
pub enum VT {
    B,
    Z,
    X,
    /// H-box and anything else: carried structurally, not evaluable
    Other(u8),
}

#[derive(Clone, Debug, PartialEq)]
pub struct DV {
    pub id: usize,
    pub ty: VT,
    pub num: i64,
    pub den: i64,
    pub qubit: f64,
    pub row: f64,
}

#[derive(Clone, Debug, PartialEq)]
pub enum Sc {
    Exact(Zw),
    Float(f64, f64),
}

impl Sc {
    pub fn to_c64(&self) -> (f64, f64) {
        match self {
            Sc::Exact(z) => z.to_c64(),
            Sc::Float(a, b) => (*a, *b),
        }
    }
}

#[derive(Clone, Debug, PartialEq)]
pub struct Dg {
    pub verts: Vec<DV>,
    /// (u, v, hadamard?) with u <= v
    pub edges: Vec<(usize, usize, bool)>,
    pub inputs: Vec<usize>,
    pub outputs: Vec<usize>,
    pub scalar: Sc,
    /// the dyadic coefficients of a quizx scalar read as an exact ring element,
    /// whether or not they were flagged approximate (None for harness-built diagrams)
    pub scalar_dyadic: Option<Zw>,
}

#[derive(Clone, Debug, PartialEq)]
pub enum Val {
    Exact(Zw),
    Float(f64, f64),
}

impl Val {
    pub fn to_c64(&self) -> (f64, f64) {
        match self {
            Val::Exact(z) => z.to_c64(),
            Val::Float(a, b) => (*a, *b),
        }
    }
    pub fn is_exact(&self) -> bool {
        matches!(self, Val::Exact(_))
    }
    pub fn add(&self, o: &Val) -> Val {
        match (self, o) {
            (Val::Exact(a), Val::Exact(b)) => Val::Exact(a.add(b)),
            _ => {
                let (a, b) = self.to_c64();
                let (c, d) = o.to_c64();
                Val::Float(a + c, b + d)
            }
        }
    }
    pub fn mul(&self, o: &Val) -> Val {
        match (self, o) {
            (Val::Exact(a), Val::Exact(b)) => Val::Exact(a.mul(b)),
            _ => {
                let (a, b) = self.to_c64();
                let (c, d) = o.to_c64();
                Val::Float(a * c - b * d, a * d + b * c)
            }
        }
    }
    pub fn zero() -> Val {
        Val::Exact(Zw::zero())
    }
    pub fn one() -> Val {
        Val::Exact(Zw::one())
    }
    /// exact equality when both exact, relative/absolute tolerance otherwise
    pub fn same(&self, o: &Val, tol: f64) -> bool {
        match (self, o) {
            (Val::Exact(a), Val::Exact(b)) => a == b,
            _ => {
                let (a, b) = self.to_c64();
                let (c, d) = o.to_c64();
                let m = (a * a + b * b).sqrt().max((c * c + d * d).sqrt()).max(1.0);
                ((a - c).powi(2) + (b - d).powi(2)).sqrt() <= tol * m
            }
        }
    }
    pub fn show(&self) -> String {
        match self {
            Val::Exact(z) => {
                let (a, b) = z.to_c64();
                format!("{} ~ {:.6}{:+.6}i", z.show(), a, b)
            }
            Val::Float(a, b) => format!("{:.12}{:+.12}i", a, b),
        }
    }
}

#[derive(Debug, Clone, PartialEq)]
pub enum EvalErr {
    TooLarge(usize),
    Unsupported(String),
}

impl Dg {
    pub fn from_snap(s: &Snap) -> Dg {
        let verts = s
            .verts
            .iter()
            .map(|&(id, ty, num, den, qubit, row)| DV {
                id,
                ty: match ty {
                    VType::B => VT::B,
                    VType::Z => VT::Z,
                    VType::X => VT::X,
                    VType::H => VT::Other(0),
                    VType::WInput => VT::Other(1),
                    VType::WOutput => VT::Other(2),
                    VType::ZBox => VT::Other(3),
                },
                num,
                den,
                qubit,
                row,
            })
            .collect();
        let edges = s
            .edges
            .iter()
            .map(|&(u, v, e)| {
                let (u, v) = if u <= v { (u, v) } else { (v, u) };
                (
                    u,
                    v,
                    match e {
                        EType::N => false,
                        EType::H => true,
                        EType::Wio => false,
                    },
                )
            })
            .collect();
        let (z, approx) = Zw::from_raw(&s.scalar);
        let scalar = if approx {
            let (a, b) = z.to_c64();
            Sc::Float(a, b)
        } else {
            Sc::Exact(z.clone())
        };
        Dg {
            verts,
            edges,
            inputs: s.inputs.clone(),
            outputs: s.outputs.clone(),
            scalar,
            scalar_dyadic: Some(z),
        }
    }

    pub fn of<G: quizx::graph::GraphLike>(g: &G) -> Dg {
        Dg::from_snap(&Snap::of(g))
    }

    /// Lossless text form, for handing a decoded diagram from a child process to the harness
    /// (floats as bit patterns, ring elements as decimal strings).
    pub fn to_wire(&self) -> String {
        let zw = |z: &Zw| serde_json::json!({"c": z.c.iter().map(|x| x.to_string()).collect::<Vec<_>>(), "e": z.e});
        let vt = |t: &VT| match t {
            VT::B => 0i64,
            VT::Z => 1,
            VT::X => 2,
            VT::Other(k) => 100 + *k as i64,
        };
        serde_json::json!({
            "verts": self.verts.iter().map(|v| serde_json::json!([v.id, vt(&v.ty), v.num, v.den, v.qubit.to_bits().to_string(), v.row.to_bits().to_string()])).collect::<Vec<_>>(),
            "edges": self.edges,
            "inputs": self.inputs,
            "outputs": self.outputs,
            "scalar": match &self.scalar { Sc::Exact(z) => serde_json::json!({"exact": zw(z)}), Sc::Float(a, b) => serde_json::json!({"float": [a.to_bits().to_string(), b.to_bits().to_string()]}) },
            "scalar_dyadic": self.scalar_dyadic.as_ref().map(zw),
        })
        .to_string()
    }

    pub fn from_wire(s: &str) -> Option<Dg> {
        let v: serde_json::Value = serde_json::from_str(s).ok()?;
        let zw = |j: &serde_json::Value| -> Option<Zw> {
            let c = j.get("c")?.as_array()?;
            let mut out = Zw::zero();
            for i in 0..4 {
                out.c[i] = c.get(i)?.as_str()?.parse::<BigInt>().ok()?;
            }
            out.e = j.get("e")?.as_i64()?;
            Some(out)
        };
        let f = |j: &serde_json::Value| -> Option<f64> { Some(f64::from_bits(j.as_str()?.parse::<u64>().ok()?)) };
        let mut verts = vec![];
        for x in v.get("verts")?.as_array()? {
            let a = x.as_array()?;
            let ty = match a.get(1)?.as_i64()? {
                0 => VT::B,
                1 => VT::Z,
                2 => VT::X,
                k => VT::Other((k - 100) as u8),
            };
            verts.push(DV { id: a.first()?.as_u64()? as usize, ty, num: a.get(2)?.as_i64()?, den: a.get(3)?.as_i64()?, qubit: f(a.get(4)?)?, row: f(a.get(5)?)? });
        }
        let edges: Vec<(usize, usize, bool)> = serde_json::from_value(v.get("edges")?.clone()).ok()?;
        let inputs: Vec<usize> = serde_json::from_value(v.get("inputs")?.clone()).ok()?;
        let outputs: Vec<usize> = serde_json::from_value(v.get("outputs")?.clone()).ok()?;
        let sc = v.get("scalar")?;
        let scalar = if let Some(z) = sc.get("exact") {
            Sc::Exact(zw(z)?)
        } else {
            let a = sc.get("float")?.as_array()?;
            Sc::Float(f(a.first()?)?, f(a.get(1)?)?)
        };
        let scalar_dyadic = match v.get("scalar_dyadic") {
            Some(j) if !j.is_null() => Some(zw(j)?),
            _ => None,
        };
        Some(Dg { verts, edges, inputs, outputs, scalar, scalar_dyadic })
    }

    pub fn tcount(&self) -> usize {
        self.verts
            .iter()
            .filter(|v| matches!(v.ty, VT::Z | VT::X) && v.den != 1 && v.den != 2)
            .count()
    }

    pub fn is_closed(&self) -> bool {
        self.inputs.is_empty() && self.outputs.is_empty()
    }

    /// Number of free summation classes (cost = 2^this), or an error.
    pub fn cost_classes(&self) -> Result<usize, EvalErr> {
        let p = self.prepare(&[])?;
        Ok(p.free.len())
    }

    /// Boundary vertices in input-then-output order.
    pub fn boundary(&self) -> Vec<usize> {
        let mut b = self.inputs.clone();
        b.extend(self.outputs.iter().copied());
        b
    }

    /// Evaluate with the given bits on the boundary vertices (inputs then outputs).
    pub fn eval(&self, bits: &[bool], max_classes: usize) -> Result<Val, EvalErr> {
        let b = self.boundary();
        assert_eq!(b.len(), bits.len(), "boundary assignment length");
        let assign: Vec<(usize, bool)> = b.into_iter().zip(bits.iter().copied()).collect();
        let p = self.prepare(&assign)?;
        p.run(max_classes, &self.scalar)
    }

    /// All 2^k entries, index bit i = boundary i (inputs then outputs).
    pub fn tensor(&self, max_classes: usize) -> Result<Vec<Val>, EvalErr> {
        let k = self.boundary().len();
        if k > 12 {
            return Err(EvalErr::TooLarge(k));
        }
        let mut out = Vec::with_capacity(1 << k);
        for idx in 0..(1usize << k) {
            let bits: Vec<bool> = (0..k).map(|i| (idx >> i) & 1 == 1).collect();
            out.push(self.eval(&bits, max_classes)?);
        }
        Ok(out)
    }

    fn prepare(&self, assign: &[(usize, bool)]) -> Result<Prepared, EvalErr> {
        let n = self.verts.len();
        let mut idx = std::collections::BTreeMap::new();
        for (i, v) in self.verts.iter().enumerate() {
            idx.insert(v.id, i);
        }
        let mut l: i64 = 4;
        for v in &self.verts {
            match v.ty {
                VT::Z | VT::X => {
                    if v.den <= 0 {
                        return Err(EvalErr::Unsupported("bad phase".into()));
                    }
                    l = lcm(l, v.den);
                    if l > (1 << 40) {
                        return Err(EvalErr::Unsupported("phase denominators too large".into()));
                    }
                }
                VT::B => {}
                VT::Other(k) => {
                    return Err(EvalErr::Unsupported(format!("vertex kind {k}")));
                }
            }
        }
        // union-find over effective plain edges
        let mut uf: Vec<usize> = (0..n).collect();
        fn find(uf: &mut Vec<usize>, mut x: usize) -> usize {
            while uf[x] != x {
                uf[x] = uf[uf[x]];
                x = uf[x];
            }
            x
        }
        let is_x = |i: usize| self.verts[i].ty == VT::X;
        let mut hedges: Vec<(usize, usize)> = vec![];
        for &(u, v, had) in &self.edges {
            let (iu, iv) = match (idx.get(&u), idx.get(&v)) {
                (Some(&a), Some(&b)) => (a, b),
                _ => return Err(EvalErr::Unsupported("dangling edge".into())),
            };
            let eff = had ^ is_x(iu) ^ is_x(iv);
            if iu == iv {
                // self loop: plain loop is trivial; H loop = (1/√2)(−1)^x
                if eff {
                    hedges.push((iu, iv));
                }
                continue;
            }
            if eff {
                hedges.push((iu, iv));
            } else {
                let (a, b) = (find(&mut uf, iu), find(&mut uf, iv));
                if a != b {
                    uf[a] = b;
                }
            }
        }
        // classes
        let mut cls_of = vec![usize::MAX; n];
        let mut ncls = 0;
        for i in 0..n {
            let r = find(&mut uf, i);
            if cls_of[r] == usize::MAX {
                cls_of[r] = ncls;
                ncls += 1;
            }
            cls_of[i] = cls_of[r];
        }
        let two_l = 2 * l;
        let mut k = vec![0i64; ncls];
        for (i, v) in self.verts.iter().enumerate() {
            if matches!(v.ty, VT::Z | VT::X) {
                let units = (v.num as i128 * (l / v.den) as i128).rem_euclid(two_l as i128) as i64;
                k[cls_of[i]] = (k[cls_of[i]] + units).rem_euclid(two_l);
            }
        }
        let mut fixed: Vec<Option<bool>> = vec![None; ncls];
        let mut zero = false;
        for &(vid, bit) in assign {
            let i = match idx.get(&vid) {
                Some(&i) => i,
                None => return Err(EvalErr::Unsupported("assignment to unknown vertex".into())),
            };
            let c = cls_of[i];
            match fixed[c] {
                None => fixed[c] = Some(bit),
                Some(b) if b != bit => zero = true,
                _ => {}
            }
        }
        for (i, v) in self.verts.iter().enumerate() {
            if v.ty == VT::B && !assign.iter().any(|&(vid, _)| vid == v.id) && !assign.is_empty() {
                return Err(EvalErr::Unsupported(format!("boundary {} unassigned", v.id)));
            }
            let _ = i;
        }
        // hadamard multiplicities between classes
        let h = hedges.len();
        let mut pair = std::collections::BTreeMap::new();
        for (a, b) in hedges {
            let (ca, cb) = (cls_of[a], cls_of[b]);
            if ca == cb {
                k[ca] = (k[ca] + l).rem_euclid(two_l);
            } else {
                let key = if ca < cb { (ca, cb) } else { (cb, ca) };
                *pair.entry(key).or_insert(0usize) += 1;
            }
        }
        // free classes
        let free: Vec<usize> = (0..ncls).filter(|&c| fixed[c].is_none()).collect();
        let mut fpos = vec![usize::MAX; ncls];
        for (i, &c) in free.iter().enumerate() {
            fpos[c] = i;
        }
        let mut k0: i64 = 0;
        for c in 0..ncls {
            if fixed[c] == Some(true) {
                k0 = (k0 + k[c]).rem_euclid(two_l);
            }
        }
        let m = free.len();
        let mut kf: Vec<i64> = free.iter().map(|&c| k[c]).collect();
        let mut adj: Vec<u128> = vec![0; m];
        for (&(a, b), &cnt) in &pair {
            if cnt % 2 == 0 {
                continue;
            }
            match (fixed[a], fixed[b]) {
                (None, None) => {
                    if m <= 128 {
                        adj[fpos[a]] |= 1u128 << fpos[b];
                        adj[fpos[b]] |= 1u128 << fpos[a];
                    }
                }
                (Some(x), None) => {
                    if x {
                        kf[fpos[b]] = (kf[fpos[b]] + l).rem_euclid(two_l);
                    }
                }
                (None, Some(x)) => {
                    if x {
                        kf[fpos[a]] = (kf[fpos[a]] + l).rem_euclid(two_l);
                    }
                }
                (Some(x), Some(y)) => {
                    if x && y {
                        k0 = (k0 + l).rem_euclid(two_l);
                    }
                }
            }
        }
        Ok(Prepared {
            l,
            h,
            k0,
            kf,
            adj,
            free,
            zero,
        })
    }
}

struct Prepared {
    l: i64,
    h: usize,
    k0: i64,
    kf: Vec<i64>,
    adj: Vec<u128>,
    free: Vec<usize>,
    zero: bool,
}

fn gcd(a: i64, b: i64) -> i64 {
    if b == 0 {
        a.abs()
    } else {
        gcd(b, a % b)
    }
}
fn lcm(a: i64, b: i64) -> i64 {
    a / gcd(a, b) * b
}

impl Prepared {
    fn run(&self, max_classes: usize, scalar: &Sc) -> Result<Val, EvalErr> {
        let m = self.free.len();
        if m > max_classes || m > 40 {
            return Err(EvalErr::TooLarge(m));
        }
        let exact = self.l == 4 && matches!(scalar, Sc::Exact(_));
        if self.zero {
            return Ok(if exact {
                Val::Exact(Zw::zero())
            } else {
                Val::Float(0.0, 0.0)
            });
        }
        let two_l = 2 * self.l;
        let l = self.l;
        let use_table = two_l <= (1 << 16);
        let mut cnt: Vec<i64> = if use_table {
            vec![0; two_l as usize]
        } else {
            vec![]
        };
        let (mut fre, mut fim) = (0.0f64, 0.0f64);
        let mut x: u128 = 0;
        let mut k = self.k0;
        let mut tally = |k: i64| {
            if use_table {
                cnt[k as usize] += 1;
            } else {
                let a = std::f64::consts::PI * (k as f64) / (l as f64);
                fre += a.cos();
                fim += a.sin();
            }
        };
        tally(k);
        let total: u64 = 1u64 << m;
        for i in 1..total {
            let bit = i.trailing_zeros() as usize;
            let was = (x >> bit) & 1 == 1;
            let par = ((self.adj[bit] & x).count_ones() & 1) as i64;
            if was {
                k = (k - self.kf[bit] + l * par).rem_euclid(two_l);
            } else {
                k = (k + self.kf[bit] + l * par).rem_euclid(two_l);
            }
            x ^= 1u128 << bit;
            tally(k);
        }
        if exact {
            // Σ cnt[k] ω^k, k in units of π/4 (l == 4, two_l == 8)
            let mut c = [BigInt::from(0), BigInt::from(0), BigInt::from(0), BigInt::from(0)];
            for kk in 0..8usize {
                if kk < 4 {
                    c[kk] += BigInt::from(cnt[kk]);
                } else {
                    c[kk - 4] -= BigInt::from(cnt[kk]);
                }
            }
            let s = Zw::from_big(c, 0).mul_sqrt2_pow(-(self.h as i64));
            let sc = match scalar {
                Sc::Exact(z) => z,
                _ => unreachable!(),
            };
            Ok(Val::Exact(s.mul(sc)))
        } else {
            if use_table {
                for (kk, &c) in cnt.iter().enumerate() {
                    if c != 0 {
                        let a = std::f64::consts::PI * (kk as f64) / (l as f64);
                        fre += (c as f64) * a.cos();
                        fim += (c as f64) * a.sin();
                    }
                }
            }
            let f = std::f64::consts::FRAC_1_SQRT_2.powi(self.h as i32);
            let (sr, si) = scalar.to_c64();
            let (a, b) = (fre * f, fim * f);
            Ok(Val::Float(a * sr - b * si, a * si + b * sr))
        }
    }
}

/// Sum of values
pub fn sum_vals(vs: &[Val]) -> Val {
    let mut acc = Val::zero();
    for v in vs {
        acc = acc.add(v);
    }
    acc
}
