#!/bin/bash
# usage: tools/confirm_mutation.sh <worktree> <k> <outfile>
# Confirms a seeded change in its scratch worktree: builds, the existing suite passes with it,
# the demonstration (a test file for quizx/tests/) fails with it and passes without it.
set -u
WT="$1"; K="$2"; OUT="$3"
M="$WT/_mutation/$K"
DEMO=$(ls "$M"/*.rs | head -1); NAME=$(basename "$DEMO" .rs)
cd "$WT" || exit 2
git checkout -- . 2>/dev/null
export CARGO_NET_OFFLINE=true CARGO_TERM_COLOR=never
{
echo "mutation: $M"
git apply "$M/patch.diff" || { echo "RESULT patch_applies=no"; exit 1; }
echo "RESULT patch_applies=yes"
if cargo test --workspace --offline >"$M/confirm-suite.log" 2>&1; then
  echo "RESULT suite_with_patch=pass ($(grep -c '^test .* ok$' "$M/confirm-suite.log") tests ok, $(grep -c 'FAILED' "$M/confirm-suite.log") FAILED lines)"
else
  echo "RESULT suite_with_patch=FAIL"; grep -E "FAILED|panicked|error" "$M/confirm-suite.log" | head -5
fi
if RUSTFLAGS="--cfg quizx_verif" cargo build --offline -p quizx --target-dir target/v >"$M/confirm-cfg.log" 2>&1; then echo "RESULT builds_with_cfg=yes"; else echo "RESULT builds_with_cfg=NO"; fi
cp "$DEMO" quizx/tests/
if cargo test --offline -p quizx --test "$NAME" >"$M/confirm-demo-with.log" 2>&1; then echo "RESULT demo_with_patch=pass (UNEXPECTED)"; else echo "RESULT demo_with_patch=fail (expected)"; grep -E "^test .*FAILED|panicked at" "$M/confirm-demo-with.log" | head -4; fi
git checkout -- .
if cargo test --offline -p quizx --test "$NAME" >"$M/confirm-demo-without.log" 2>&1; then echo "RESULT demo_without_patch=pass (expected)"; else echo "RESULT demo_without_patch=FAIL (UNEXPECTED)"; fi
rm -f "quizx/tests/$NAME.rs"
git checkout -- .
} >"$OUT" 2>&1
