#!/bin/bash
# usage: tools/determinism_sweep.sh <N> [first-seed last-seed] [ids...]
# Proof obligation of the technique: one seed is one execution. For every property and every
# VERIF_SEED in the range, the event digests of the first N runs of every sub-batch are computed
# twice, in two fresh processes (different PIDs, ASLR, RandomState keys, scratch directories, and -
# under load - different timing), and diffed. Uses the harness binary built by bin/check / bin/setup
# against /repo. Prints one line per (seed, property); exit 1 on any difference.
set -u
N="${1:-100}"; A="${2:-1}"; B="${3:-3}"; shift 3 2>/dev/null || true
IDS="${*:-C03 C05 C06 C13 C18 C19}"
ROOT="$(cd "$(dirname "$0")/.." && pwd)"
export QSIM_ROOT="$ROOT" QSIM_QUIZX_BIN="$ROOT/target/plain/release/quizx" QSIM_QFAULT_SO="$ROOT/target/libqfault.so"
Q="$ROOT/target/release/qsim"
bad=0
for s in $(seq "$A" "$B"); do
  for id in $IDS; do
    VERIF_SEED=$s "$Q" "$id" quick --digests "$N" 2>/dev/null | grep '^DIGEST' >/dev/shm/det-a.$$ 
    VERIF_SEED=$s "$Q" "$id" quick --digests "$N" 2>/dev/null | grep '^DIGEST' >/dev/shm/det-b.$$
    n=$(wc -l </dev/shm/det-a.$$); d=$(diff /dev/shm/det-a.$$ /dev/shm/det-b.$$ | grep -c '^<')
    echo "seed=$s $id runs=$n differing=$d"
    [ "$d" -ne 0 ] && { bad=1; diff /dev/shm/det-a.$$ /dev/shm/det-b.$$ | head -4; }
  done
done
rm -f /dev/shm/det-a.$$ /dev/shm/det-b.$$
echo "determinism sweep finished: $([ $bad = 0 ] && echo identical || echo DIFFERENCES)"
exit $bad
