#!/usr/bin/env python3
"""usage: keep_mutation.py <worktree> <k> <seeded-id> <property> <check-verdict-text>
Copies a confirmed seeded change into /verif/seeded/<seeded-id>/ (patch.diff, the demonstration,
meta.json with what it breaks, what it needs to manifest, and what was run to confirm it)."""
import json, os, shutil, sys, glob
wt, k, sid, prop, verdict = sys.argv[1:6]
src = f"{wt}/_mutation/{k}"
dst = f"/verif/seeded/{sid}"
os.makedirs(dst, exist_ok=True)
shutil.copy(f"{src}/patch.diff", f"{dst}/patch.diff")
demos = [f for f in glob.glob(f"{src}/*") if os.path.basename(f) not in ("patch.diff", "meta.json") and not os.path.basename(f).startswith("confirm-")]
for f in demos:
    if os.path.isfile(f):
        shutil.copy(f, dst)
am = json.load(open(f"{src}/meta.json"))
conf = open(f"/tmp/confirm/{os.path.basename(wt).replace('mut-','')}-{k}.txt").read()
meta = {
    "id": sid,
    "property": prop,
    "origin": "written by an independent sub-agent that was given only the property text and a scratch worktree of /repo (nothing from /verif)",
    "summary": am.get("summary"),
    "needs_to_manifest": am.get("needs_to_manifest"),
    "demonstration": am.get("demo"),
    "confirmed_by_me": {
        "how": "tools/confirm_mutation.sh in the scratch worktree: git apply patch.diff; cargo test --workspace --offline (existing suite); RUSTFLAGS='--cfg quizx_verif' cargo build; demo test copied to quizx/tests/ and run with the patch (must fail) and without it (must pass)",
        "result": [l for l in conf.splitlines() if l.startswith("RESULT")],
    },
    "my_checks": {
        "how": f"tools/try_mutation.sh seeded/{sid}/patch.diff {prop} quick  (applies the patch to /repo, runs the check with outputs redirected, reverts /repo)",
        "verdict": verdict,
    },
}
json.dump(meta, open(f"{dst}/meta.json", "w"), indent=1)
print("kept", dst)
