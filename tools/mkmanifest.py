#!/usr/bin/env python3
"""Regenerates /verif/MANIFEST.json from the tables below (kept in one place so that the
manifest stays valid and in step with what is built)."""
import json, subprocess

HOOK_COMMITS = subprocess.run(
    ["git", "-C", "/repo", "log", "--format=%h %s", "--grep=^verif hooks"],
    capture_output=True, text=True).stdout.strip().splitlines()

NA = {
 "C01": "every simplifier is a deterministic pure function of the diagram (only FxHash maps, no RNG, threads, clock or I/O in simplify.rs/basic_rules.rs): there is no schedule, fault or interleaving for a simulator to own; deciding it would be input generation in simulator vocabulary",
 "C02": "circuit-to-diagram translation is a pure function of the gate list and two booleans; no nondeterminism or fault surface",
 "C04": "rule matchers and rewrites are pure functions of (diagram, vertex arguments); the property's own quantifier is exhaustive/random input enumeration, not a schedule or fault space",
 "C07": "scalar arithmetic is pure integer/float code; nothing to schedule or fail",
 "C08": "tensor evaluation is a pure function; its one par_azip! works on disjoint element pairs through ndarray's safe API, so no schedule can change the result, and ndarray's internal rayon cannot be put behind a seam without forking the dependency",
 "C09": "both graph backends are sequential, deterministic, seam-free data structures; a generated history against a reference model with no scheduler, randomness or fault in it is input generation, not simulation",
 "C10": "parametrised rewriting is a pure function of (diagram, assignment)",
 "C11": "plugging, adjoint and identity test are pure functions of their arguments",
 "C12": "both equality checkers are deterministic pure functions of the pair",
 "C14": "print/parse is string-to-string and deterministic (the openqasm dependency's RandomState maps do not reach the result); only the file-reading entry point meets I/O and that is exercised under the C03/C06 input faults",
 "C15": "adjoint, expansion, concatenation and statistics are pure functions of the gate list",
 "C16": "phase arithmetic is pure rational arithmetic",
 "C17": "F2 linear algebra is a pure function of (matrix, block size); the FxHash of row chunks is deterministic",
 "C20": "detection_webs is a deterministic function of the labelled graph (its std HashMaps are only looked up, never iterated into the result); 'every numbering' is an input transformation, not a schedule",
}

CHECKS = {
 "C03": dict(
   category="fault_enumeration",
   text="The command-line clause of C03 is what meets the outside world and is decided by fault simulation; the library-level clause is a pure function of the circuit (no schedule, fault or I/O in it) and is covered by a plain seeded sub-batch against the same reference simulator (see below and DESIGN.md §4 C03, §9.9). `quizx opt` is driven end to end on generated QASM files: in-process through -o, as the shipped binary on stdout, and as the shipped binary under injected input faults (missing file, directory, empty, torn at a statement boundary, torn mid token) and output faults (ENOSPC, torn write via RLIMIT_FSIZE, missing directory, directory target, stdout on /dev/full, broken pipe), and under a system-call seam (an LD_PRELOAD shim through which the decider makes the n-th open/read/write on the input file, the -o file or stdout transfer fewer bytes than asked, fail once with EINTR, or fail with EIO/ENOSPC/EDQUOT/EMFILE/EACCES/...). Fault-free runs must exit 0 with a program that parses back, keeps the qubit count, uses only h/rz/cz/cx/swap and is projectively equal to the input by the harness's gate-matrix simulator; under faults success is accepted only with a complete program equivalent to the program the tool actually saw. Sub-batch `lib`: circuit -> diagram in the vector or hash backend (before the Clifford and full strategies a quarter of the runs translate with local simplification after every gate, to_graph_with_options(true,false)) -> flow / Clifford / full simplification -> extractor in gflow single-solution-set, gflow simple-Gauss or (flow strategy) Gauss-free flow mode, with and without up_to_perm: extraction must succeed and be equivalent (up_to_perm: for some permutation of the input qubits, all n! tried).",
   design_ref="DESIGN.md §2.5, §4 C03, §9.9",
   note="Trusted: harness gate-matrix simulator and QASM printer/parser (self-tested), /dev/full, RLIMIT_FSIZE and pipe semantics. Bounds: <=5 qubits, <=30 gates, phase denominators <=16. The library-level sub-batch has no fault or schedule dimension (there is none in that code): it is seeded generation within <=6 qubits and <=70 gates, evidence rather than exploration of interleavings.",
   technique="fault injection around the real CLI (in-process and child process) with a gate-matrix reference simulator as oracle; seeded scenario generation, shrinking + replay files"),
 "C06": dict(
   category="exploration",
   text="`quizx sim` is run in-process with the ambient-RNG seam (every Bernoulli draw of the sampler is a recorded decider decision), the fork-join seam (--parallel schedules and worker counts) and the Bernoulli observer installed, on generated QASM files, with every query kind, method and --parallel setting, each query repeated under another method and the other --parallel setting. Oracles from the harness's state-vector simulator: printed probability/expectation; S1 every printed sample has non-zero Born probability; S2 every (prefix, p) handed to a Bernoulli draw equals P(next=1 | prefix) - decidable pointwise only because the simulator owns the randomness; S3 chi-square of decider-driven samples at 1e-12. Malformed argv must be an error, not a panic or an answer. S4: per-position drift of the printed bits against the reference conditionals (Hoeffding bound below 1e-12; needs no hook, works at any register width). Each run executes on a fresh OS thread; a third of the in-process runs are preceded on that thread by another Cli::run (a sibling circuit with other angles, another circuit at the same path, a failing call), a third find a longer file at the --out path; sub-batches with 1000..16385 shots and with 24..48-qubit registers. The shipped binary runs as a child for stdout/exit-status and under the same input/output fault kinds and the same system-call seam (short reads/writes, EINTR, errno failures at decider-chosen calls) as C03.",
   design_ref="DESIGN.md §4 C06",
   note="Trusted: harness gate-matrix simulator (exact ring for Clifford+T, f64 otherwise), bit i of a printed string = qubit i. Bounds: <=4 qubits quick / 5 thorough (5..8 in `deeper`, 24..48 factorised in `wide`), <=14 gates (<=45 in `deeper`), <=16 shots (400/2000 in `stats`, up to 16385 in `many_shots`). Known finding recorded in known_findings.json: 'No ts!' panic for non-Clifford phases other than odd multiples of pi/4.",
   technique="deterministic simulation: seeded decider behind the sampler's RNG seam and the fork-join seam, state-vector reference model (support, pointwise conditional-probability and chi-square oracles), fault injection around the real CLI, shrinking + replay files"),
 "C05": dict(
   category="exploration",
   text="Seeded simulation of the decomposer: one decider owns the generated closed Clifford+T diagram and configuration and, through cfg-gated seams, every ambient RNG draw of the random drivers, every RandomState key of the dynamic-T driver, and for parallel executions the worker count (1..16), the execution order of the tasks of every (nested) fork-join region and their workers. Every scenario runs sequentially and in parallel twice: once in the sequentialised fork-join model (whole tasks in decider order) and, in every second run, on the simulated worker pool (W real OS threads of which one runs at a time, decider-chosen switches at task start/end, at seams, at joins, and - through quizx::verif::std_shim, which every source file sees as `std` under the guard - at every atomic and lock operation of the crate), which interleaves sibling tasks of different regions; engine E2 additionally runs the shipped rayon code under Miri's seeded scheduler; results are compared exactly (Z[omega]/2^k) with an independent evaluator of the original diagram, every decomposition step and component split is checked for conservation while the run proceeds, and sequential/parallel results are compared with each other. Sub-batches: saved Clifford terms of open diagrams, and apply_decomp on embedded sites. Sampling, not enumeration.",
   design_ref="DESIGN.md §2.3, §4 C05",
   note="Trusted: the harness evaluator/ring (cross-checked against the gate simulator on harness-translated circuits at every start), the two fork-join models (sequentialised whole tasks; simulated worker pool with switches at task boundaries, seams and joins - preemption only at those points, i.e. sequentially consistent interleavings at the granularity of atomic / lock operations; weak-memory effects and sync types not spelled std::sync are left to the small E2 Miri sample; a syntactic audit of quizx/src for Mutex/Atomic/RefCell/unsafe/static mut runs with every check and is reported in the evidence). Bounds: <=14 spiders, T-count <=10 quick / <=14 thorough, circuits <=4 qubits. Budget overruns are reported as inconclusive (exit 2 above 1%), never as violations: the property does not state termination.",
   technique="deterministic simulation: seeded decider behind RNG / hash-order / fork-join seams (sequentialised model + simulated worker pool with a baton scheduler; real rayon under Miri as second engine), exact-evaluator oracle + per-step conservation invariants + sequential/parallel twin, shrinking + replay files",
   engine="qsim + qmiri"),
 "C13": dict(
   category="exploration",
   text="Seeded simulation of the qgraph round trip: the decider owns the generated diagram and, through the hash-order seam, the RandomState key of every map created in the encoder and in each of several independent decodes, so JSON member order, decoded vertex numbering and edge insertion order are recorded, replayable decisions instead of per-process accidents. Decoded graphs are compared with the original by an input/output-anchored isomorphism oracle (types, phases, edge types, coordinates), exact scalar comparison in Z[omega]/2^k for sqrt2^p e^{ik pi/4} and 1e-9 relative otherwise, tensor equality where evaluable, and pairwise between hash orders. The file form (write_graph/read_graph) runs on a real filesystem under injected ENOSPC, a torn write at a decider-chosen offset (RLIMIT_FSIZE, child process), missing directory and directory-as-target, and with write_graph resp. read_graph in a child process behind a system-call seam (LD_PRELOAD shim: short writes / short reads, EINTR, errno failures at decider-chosen open/read/write calls); only a reported success with a missing, undecodable or different file is a violation. Sub-batch file_multi: histories of several write_graph calls into one directory under names that share stems and extensions, after which every file must hold the diagram written to it last; sub-batch file_concurrent: concurrent writer threads in a child process under the seam's thread scheduler (one runs at a time, decider-chosen switches at every file operation).",
   design_ref="DESIGN.md §2.5, §4 C13",
   note="Trusted: the isomorphism checker (self-tested on permuted copies and on edge-type mutations at every start), the ZX evaluator, tmpfs//dev/full/RLIMIT_FSIZE semantics. Coordinates are compared to 1e-12 relative (serde_json's default float parser is not correctly rounded in the last bit); for phase denominators above 256 - outside the exactness clause - only agreement to 1/256 is demanded; a scalar whose dyadic coefficients equal the original is accepted even if flagged approximate. Bounds: <=10 spiders (300 in the large-file runs), <=12 boundaries per side, scalar magnitudes 2^-1000..2^1000.",
   technique="deterministic simulation: seeded decider behind the hash-order seam + fault injection on the real filesystem, anchored-isomorphism / exact-scalar / tensor oracles, shrinking + replay files"),
 "C18": dict(
   category="exploration",
   text="Seeded simulation of move histories: the simulator is the caller of the existing `impl Rng` seam (and of the ambient-RNG seam in rank_decomp), so every internal choice of every move and of the annealer is a recorded decision. After every operation the tree is checked structurally by the harness, against is_valid_for_graph, and its cached width/score against a cache-cleared recomputation and a brute-force F2 cut-rank oracle. Histories also fork the tree (one copy shelved, later queried: it must be unchanged and report the brute-force values) and a third of them run with a passive checker (no clones, no rank computations on the harness's behalf between the scenario's own queries), because a checker that exercises the code at every step changes the cache state it is supposed to observe. Sampling, not enumeration: a clean batch is evidence within the stated bounds.",
   design_ref="DESIGN.md §4 C18, §9.6",
   note="Trusted: the harness's F2 rank oracle and tree traversal (self-tested), rand's distribution algorithms. Bounds: <=14 vertices (<=26 in half of the annealer runs), <=60 operations per history (150..400 on 3..5-vertex graphs in sub-batch small_long), <=300 annealer iterations; annealer temperatures > 0 and 0 < cooling < 1.",
   technique="deterministic simulation: seeded decider behind the Rng seam, reference-model (brute-force cut-rank) oracle after every step, shrinking + replay files"),
 "C19": dict(
   category="exploration",
   text="Reproducibility of a seeded generator is a statement about different executions, i.e. exactly this technique's replay-determinism proof applied to the repo's own generators: the same (generator, parameters, seed) is built twice on fresh builders with the ambient-RNG and hash-order seams installed (any draw from rand::rng() or any randomised map during a seeded build is counted and is a violation deterministically, not with some probability), on a second OS thread, and for a fraction of runs in a fresh child process (other RandomState keys, ASLR, OS entropy), on a builder with a past (seeded again after a first batch; used before under another seed), and as a task of a worker of a rayon pool, and the objects are compared structurally; setters are called in varying orders and on top of an earlier configuration (a reference model of the setters says what the effective parameters are), and a sub-batch `long` builds circuits of 2^18..2^19 gates so that boundary draws of probability 2^-24 per gate occur a few times per batch. The promises are then decided by independent oracles: parameter conformance, |<shift|C|0>|^2 = 1 exactly (gate simulator in Z[omega]/2^k), squared norm exactly 1 (ZX evaluator), Pauli-gadget structure.",
   design_ref="DESIGN.md §4 C19",
   note="Trusted: gate simulator and ZX evaluator (self-tested). Admissible parameters as listed in the evidence assumptions. Known finding recorded in known_findings.json: RandomCircuitBuilder panics for qubits(1).",
   technique="deterministic simulation: cross-thread / cross-process replay diff with ambient-entropy seams counted, exact state-vector and ZX-evaluator oracles for the promises"),
}

PENDING = {
}

def main():
    checks = []
    for pid, c in sorted(CHECKS.items()):
        checks.append({
            "property_id": pid,
            "quick_cmd": f"bin/check {pid} quick",
            "thorough_cmd": f"bin/check {pid} thorough",
            "evidence_file": f"/verif/evidence/{pid}.json",
            "replay_cmd_template": f"bin/check {pid} --replay {{path}}",
            "engine": c.get("engine", "qsim"),
            "level_claimed": {"category": c["category"], "text": c["text"], "design_ref": c["design_ref"]},
            "level_note": c["note"],
            "technique": c["technique"],
        })
    na = [{"property_id": k, "reason": v} for k, v in sorted(NA.items())]
    na += [{"property_id": k, "reason": v} for k, v in sorted(PENDING.items()) if k not in CHECKS]
    m = {
        "version": 1,
        "setup_cmd": "bin/setup",
        "hooks": {
            "guard": "quizx_verif",
            "enable": "RUSTFLAGS='--cfg quizx_verif --check-cfg cfg(quizx_verif)' (set in /verif/sim/.cargo/config.toml; the harness crate depends on /repo/quizx by path, so every check rebuilds the current working tree with hooks on)",
            "baseline_off_cmd": "cd /repo && cargo nextest run --workspace --no-fail-fast --tool-config-file pb:/w/lib/nextest.toml --profile pb --test-threads 8 --offline",
            "source_commits": HOOK_COMMITS,
            "add_only": True,
        },
        "engines": [
            {"name": "qmiri", "path": "/verif/miri", "serves_properties": ["C05"],
             "kind_free_text": "engine E2: the shipped quizx (no cfg flag) with real rayon, crossbeam, ThreadRng and RandomState under Miri, whose -Zmiri-seed makes scheduler, OS entropy and hash keys a function of one integer; sequential vs parallel vs brute-force value on small diagrams; started by bin/check C05 (bin/e2)"},
            {"name": "qsim", "path": "/verif/sim", "serves_properties": sorted(CHECKS.keys()),
             "kind_free_text": "native deterministic simulator: one seeded decider decides workload, RNG draws, hash keys, fork-join schedules and faults behind cfg(quizx_verif) seams; harness-owned oracles (exact Z[omega] ZX evaluator, gate-matrix simulator, anchored isomorphism, F2 rank); shrinking and replay files"},
        ],
        "checks": checks,
        "not_applicable": na,
        "notes": "Technique family: deterministic simulation with fault injection. Properties whose anchored code is a pure function of its input (no schedule, clock, ambient randomness, I/O or multi-party behaviour) are listed under not_applicable with the reason; see DESIGN.md §0/§5. Exit codes of every check: 0 held, 1 VIOLATION, 2 build/harness/oracle-self-test/non-determinism error.",
    }
    json.dump(m, open("/verif/MANIFEST.json", "w"), indent=1)
    print("wrote MANIFEST.json:", len(checks), "checks,", len(na), "not_applicable")

main()
