#!/bin/bash
# usage: tools/seed_sweep.sh <repo-checkout> <first-seed> <last-seed> [ids...]
# Runs the quick checks under several VERIF_SEED values against a scratch checkout of zxcalc/quizx
# (never /repo itself; outputs go to an override root) and prints one line per (seed, property).
# Meant for `vp run --with-repo -- tools/seed_sweep.sh $VP_RUN_REPO 1 8`.
set -u
REPO="$(readlink -f "$1")"; A="$2"; B="$3"; shift 3
IDS="${*:-C03 C05 C06 C13 C18 C19}"
ROOT="$(cd "$(dirname "$0")/.." && pwd)"
OUT="$ROOT/target/seed-sweep-out"; mkdir -p "$OUT"
export QSIM_REPO="$REPO" QSIM_ROOT_OVERRIDE="$OUT"
bad=0
for s in $(seq "$A" "$B"); do
  for id in $IDS; do
    VERIF_SEED=$s "$ROOT/bin/check" "$id" quick >"$OUT/log-$id-$s.txt" 2>&1; rc=$?
    warn=$(grep -c -i "nondetermin\|warning" "$OUT/log-$id-$s.txt")
    echo "seed=$s $id exit=$rc warnings=$warn $(grep -o 'violation class=[^ ]*' "$OUT/log-$id-$s.txt" | head -3 | tr '\n' ' ')"
    [ $rc -ne 0 ] && bad=1
  done
done
echo "seed sweep finished: $([ $bad = 0 ] && echo no alarm || echo SOME ALARM)"
exit $bad
