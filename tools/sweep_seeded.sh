#!/bin/bash
# usage: tools/sweep_seeded.sh <repo-checkout> [id-prefix | _controls]   (_controls: only the negative controls)
# Regression sweep: applies every kept seeded change (and every behaviour-preserving refactor under
# seeded/_correct_refactors) to a scratch checkout of zxcalc/quizx -- never /repo itself -- runs the
# quick check of its property against that checkout, reverts, and prints one line per change:
#   <id> <property> exit=<code> expected=<1|0> OK|UNEXPECTED  <violation classes>
# Meant for `vp run --with-repo -- tools/sweep_seeded.sh $VP_RUN_REPO`.
set -u
REPO="$(readlink -f "$1")"; PFX="${2:-}"
[ "$REPO" = "/repo" ] && { echo "refusing to patch /repo itself" >&2; exit 2; }
ROOT="$(cd "$(dirname "$0")/.." && pwd)"
OUT="$ROOT/target/sweep-out"; mkdir -p "$OUT"
export QSIM_REPO="$REPO" QSIM_NO_E2=1 QSIM_ROOT_OVERRIDE="$OUT"
cp "$ROOT/known_findings.json" "$OUT/"
bad=0
run() { # id prop patch expected
  local id="$1" prop="$2" patch="$3" exp="$4"
  git -C "$REPO" checkout -q -- . || exit 2
  if ! git -C "$REPO" apply "$patch" 2>/dev/null; then echo "$id $prop PATCH-DOES-NOT-APPLY"; bad=1; return; fi
  rm -rf "$OUT/replays"
  "$ROOT/bin/check" "$prop" quick >"$OUT/log.txt" 2>&1; rc=$?
  git -C "$REPO" checkout -q -- .
  local cls; cls=$(grep -o "violation class=[^ ]* runs=[0-9]*" "$OUT/log.txt" | sed 's/violation class=//' | tr '\n' ' ' | cut -c1-300)
  local verdict=OK; [ "$rc" != "$exp" ] && { verdict=UNEXPECTED; bad=1; }
  echo "$id $prop exit=$rc expected=$exp $verdict  $cls"
}
CONTROLS_ONLY=0; [ "$PFX" = "_controls" ] && { CONTROLS_ONLY=1; PFX=""; }
for d in "$ROOT"/seeded/${PFX}*/; do
  [ $CONTROLS_ONLY = 1 ] && break
  id=$(basename "$d"); case "$id" in _*) continue;; esac
  prop=${id%%-*}
  run "$id" "$prop" "$d/patch.diff" 1
done
if [ -z "$PFX" ]; then
  # k -> property, as in seeded/_correct_refactors/README.md
  props=(x C05 C05 C05 C06 C03 C13 C13 C18 C18 C19)
  for k in 1 2 3 4 5 6 7 8 9 10; do
    run "refactor-$k" "${props[$k]}" "$ROOT/seeded/_correct_refactors/$k/patch.diff" 0
  done
  # second set of negative controls (seeded/_correct_refactors2/README.md)
  props2=(x C05 C05 C05 C06 C06 "C03 C06" C03 C13 C13 C18 C18 C19)
  for k in 1 2 3 4 5 6 7 8 9 10 11 12; do
    for pr in ${props2[$k]}; do
      run "refactor2-$k" "$pr" "$ROOT/seeded/_correct_refactors2/$k/patch.diff" 0
    done
  done
fi
echo "sweep finished: $([ $bad = 0 ] && echo all as expected || echo SOME UNEXPECTED)"
exit $bad
