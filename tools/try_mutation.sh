#!/bin/bash
# usage: tools/try_mutation.sh <patch.diff> <ID> [quick|thorough]   (run from /verif)
# Applies a seeded change to /repo, runs the check, and always reverts /repo afterwards.
set -u
PATCH="$(readlink -f "$1")"; ID="$2"; TIER="${3:-quick}"
cd /repo || exit 2
if [ -n "$(git status --porcelain --untracked-files=no)" ]; then echo "try_mutation: /repo is not clean" >&2; exit 2; fi
if ! git apply --check "$PATCH" 2>/dev/null; then echo "try_mutation: patch does not apply" >&2; exit 2; fi
git apply "$PATCH"
trap 'git -C /repo checkout -- . ' EXIT
# evidence and replay files of a mutated tree must not overwrite the real ones
export QSIM_ROOT_OVERRIDE=/dev/shm/qsim-mutation-out
rm -rf "$QSIM_ROOT_OVERRIDE/replays"; mkdir -p "$QSIM_ROOT_OVERRIDE" && cp /verif/known_findings.json "$QSIM_ROOT_OVERRIDE/"
cd /verif && bin/check "$ID" "$TIER"
RC=$?
echo "try_mutation: check exit code $RC"
exit $RC
