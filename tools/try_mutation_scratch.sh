#!/bin/bash
# usage: tools/try_mutation_scratch.sh <patch.diff> <ID> [quick|thorough]   (run from /verif)
# Like try_mutation.sh, but /repo itself is never touched: the change is applied to a scratch
# worktree of /repo's HEAD (/tmp/qscratch, created on demand) and the check is built against that
# (QSIM_REPO). Engine E2 is skipped (it always builds against /repo). Use it while something else
# (a background thorough run with E2, another experiment) depends on /repo staying as it is.
set -u
PATCH="$(readlink -f "$1")"; ID="$2"; TIER="${3:-quick}"
S=/tmp/qscratch
HEAD=$(git -C /repo rev-parse HEAD)
if [ ! -d "$S/.git" ] && [ ! -f "$S/.git" ]; then git -C /repo worktree add --detach "$S" "$HEAD" >/dev/null 2>&1 || { echo "cannot create $S" >&2; exit 2; }; fi
git -C "$S" checkout -q -- . && git -C "$S" checkout -q --detach "$HEAD" || exit 2
if ! git -C "$S" apply --check "$PATCH" 2>/dev/null; then echo "try_mutation_scratch: patch does not apply" >&2; exit 2; fi
git -C "$S" apply "$PATCH"
trap 'git -C /tmp/qscratch checkout -q -- .' EXIT
export QSIM_ROOT_OVERRIDE=/dev/shm/qsim-mutation-out QSIM_REPO="$S" QSIM_NO_E2=1
rm -rf "$QSIM_ROOT_OVERRIDE/replays"; mkdir -p "$QSIM_ROOT_OVERRIDE" && cp /verif/known_findings.json "$QSIM_ROOT_OVERRIDE/"
cd /verif && bin/check "$ID" "$TIER"
RC=$?
echo "try_mutation: check exit code $RC"
exit $RC
